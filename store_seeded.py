#!/usr/bin/env python3
# usage: store_seeded.py <dir-name> <worktree> <property> <pkg> <TestRegex> <needs> <caught_by> <outcome> [verified-extra]
import sys, os, json, glob, shutil
name, wt, prop, pkg, rx, needs, caught, outcome = sys.argv[1:9]
extra = sys.argv[9:] 
d = os.path.join('/verif/seeded', name)
os.makedirs(d, exist_ok=True)
sd = os.path.join(wt, 'seeded')
shutil.copy(os.path.join(sd, 'patch.diff'), os.path.join(d, 'patch.diff'))
if os.path.exists(os.path.join(sd, 'notes.md')):
    shutil.copy(os.path.join(sd, 'notes.md'), os.path.join(d, 'notes.md'))
demos = glob.glob(os.path.join(sd, '*_test.go'))
assert len(demos) == 1, demos
shutil.copy(demos[0], os.path.join(d, 'demo_test.go.txt'))
meta = {
 "property": prop,
 "origin": "independent sub-agent given only the property text and a scratch worktree",
 "needs_to_manifest": needs,
 "demo": {"file": "demo_test.go.txt", "package": pkg, "run": rx,
          "how": "copy into <worktree>/%s/ as a _test.go file; fails with patch.diff applied, passes without" % pkg},
 "verified": ["/verif/verify_seeded.sh: fresh worktree of /repo HEAD + patch: go build, go vet, existing suites ok; demo FAIL with the change, ok without"] + list(extra),
 "caught_by": caught,
 "outcome": outcome,
}
json.dump(meta, open(os.path.join(d, 'meta.json'), 'w'), indent=1)
print("stored", d, os.listdir(d))
