#!/bin/bash
# usage: try_seeded.sh <patch.diff> <tier> <ID> [ID...]
# Runs the given checks against a scratch worktree of /repo HEAD carrying the seeded change
# (VERIF_REPO, see ./check); /repo itself, evidence/ and replays/ are not touched, so this
# can run while other checks use /repo. BASE=<rev> picks another base commit.
patch=$(readlink -f "$1"); tier=$2; shift 2
W=/tmp/ts-$$
git -C /repo worktree add -q --detach $W ${BASE:-HEAD} || exit 3
trap 'git -C /repo worktree remove --force '$W'; rm -rf /verif/bin/alt-ts-'$$ EXIT
git -C $W apply "$patch" || { echo "patch does not apply"; exit 3; }
cd /verif
for id in "$@"; do
  out=$(VERIF_REPO=$W VERIF_SEED=${VERIF_SEED:-1} ./check $id --tier $tier 2>&1)
  rc=$?
  echo "== $id exit=$rc"
  echo "$out" | grep "VIOLATION\|INCONCLUSIVE\|violation " | cut -c1-400 | head -4
done
