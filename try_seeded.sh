#!/bin/bash
# usage: try_seeded.sh <patch.diff> <tier> <ID> [ID...]
# applies a seeded change to /repo, runs the given checks, and always restores /repo.
patch=$1; tier=$2; shift 2
cd /repo || exit 3
if [ -n "$(git status --porcelain)" ]; then echo "/repo not clean"; exit 3; fi
git apply "$patch" || { echo "patch does not apply"; exit 3; }
trap 'git -C /repo checkout -- . ; git -C /repo clean -fdq' EXIT
cd /verif
for id in "$@"; do
  out=$(VERIF_SEED=${VERIF_SEED:-1} ./check $id --tier $tier 2>&1)
  rc=$?
  echo "== $id exit=$rc"
  echo "$out" | grep "VIOLATION\|INCONCLUSIVE\|violation " | cut -c1-400 | head -4
done
