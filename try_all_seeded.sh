#!/bin/bash
# Runs every stored seeded change against the quick check of its property (scratch worktree of
# /repo HEAD, see try_seeded.sh) and prints one line per change. Changes marked SUPERSEDED in
# their meta.json are run against the commit named there.
cd /verif
for d in seeded/*/; do
  n=$(basename $d)
  id=$(python3 -c "import json;m=json.load(open('$d/meta.json'));print(m.get('run_against',m['property']))")
  base=HEAD
  if grep -q SUPERSEDED $d/meta.json; then base=d09aac2; fi
  out=$(BASE=$base ./try_seeded.sh $d/patch.diff quick $id 2>&1 | grep -v conda)
  rc=$(echo "$out" | grep -o 'exit=[0-9]*' | head -1)
  sig=$(echo "$out" | grep -o '^violation [A-Za-z0-9._-]*' | head -1)
  echo "$id $n $rc ${sig#violation } (base $base)"
done
