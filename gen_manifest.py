#!/usr/bin/env python3
"""Regenerates MANIFEST.json from checks_config.py (keeps the two in sync)."""
import json, os, subprocess, sys
ROOT = os.path.dirname(os.path.abspath(__file__))
sys.path.insert(0, ROOT)
from checks_config import CHECKS, NOT_APPLICABLE, LEVELS

hooks_commits = subprocess.run(["git", "-C", "/repo", "log", "--format=%h", "--", "verif_hooks.go"], stdout=subprocess.PIPE, text=True).stdout.split()
checks = []
for pid in sorted(CHECKS):
    lv = LEVELS[pid]
    checks.append(dict(
        property_id=pid,
        quick_cmd="./check %s --tier quick" % pid,
        thorough_cmd="./check %s --tier thorough" % pid,
        evidence_file="/verif/evidence/%s.json" % pid,
        replay_cmd_template="./check %s --replay {path}" % pid,
        engine="pbt",
        level_claimed=dict(category="exploration", text=lv["text"], design_ref=lv["design_ref"]),
        level_note=lv["note"],
        technique=lv["technique"],
    ))
manifest = dict(
    version=1,
    setup_cmd="./setup.sh",
    hooks=dict(guard="verif", enable="go build tag: go test -tags verif (checks build /repo through a module replace)",
               baseline_off_cmd="cd /repo && go test -vet=off -count=1 -timeout 25m ./...",
               source_commits=hooks_commits, add_only=True),
    engines=[dict(name="pbt", path="/verif/check", serves_properties=sorted(CHECKS),
                  kind_free_text="property-based testing: pgregory.net/rapid generators (stateful histories through the real engine), small-scope exhaustive enumeration of real seat-manager states, generated concurrent workloads with a linearizability oracle; python driver shards and merges evidence")],
    checks=checks,
    not_applicable=NOT_APPLICABLE,
    notes="All checks rebuild their test binary from /repo's working tree with -tags verif. Known findings: /verif/known_findings.txt. Design: /verif/DESIGN.md.",
)
with open(os.path.join(ROOT, "MANIFEST.json"), "w") as f:
    json.dump(manifest, f, indent=1)
    f.write("\n")
print("MANIFEST.json written with", len(checks), "checks")
