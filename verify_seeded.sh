#!/bin/bash
# usage: verify_seeded.sh <patch.diff> <demo_test.go> <pkg> <TestRegex>
# In a fresh scratch worktree of /repo: the change compiles, vets, passes the existing tests;
# the demonstration fails with the change and passes without it.
patch=$1; demo=$2; pkg=$3; re=$4
export GOFLAGS=-mod=mod GOPROXY=off GOSUMDB=off GOTOOLCHAIN=local
V=/tmp/vs-$$
git -C /repo worktree add -q --detach $V ${BASE:-HEAD} || exit 3
trap "git -C /repo worktree remove --force $V" EXIT
cd $V
git apply "$patch" || { echo "PATCH DOES NOT APPLY"; exit 3; }
echo "-- files changed: $(git diff --stat | tail -1)"
(go build ./... && go vet ./... >/dev/null 2>&1) && echo "build+vet: ok" || echo "build+vet: FAILED"
go test -vet=off -count=1 ./seat_manager/ ./open_game_manager/ ./actor/ 2>&1 | grep -a "^ok\|^FAIL\|^---" | tr '\n' ' '; echo
go test -vet=off -count=1 -run 'TestTableGame_Flop_Settlement' ./testcases/ 2>&1 | grep -a "^ok\|^FAIL" | tail -1
cp "$demo" $V/$pkg/zz_seeded_demo_test.go
echo -n "-- demo WITH change (expect FAIL): "
go test -vet=off -count=1 -run "$re" ./$pkg/ 2>&1 | grep -a "^ok\|^FAIL\|^panic" | head -1
git apply -R "$patch"
echo -n "-- demo WITHOUT change (expect ok): "
go test -vet=off -count=1 -run "$re" ./$pkg/ 2>&1 | grep -a "^ok\|^FAIL\|^panic" | head -1
