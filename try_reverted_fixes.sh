#!/bin/bash
# For every "fix:" commit of /repo: apply its reverse to a scratch worktree of HEAD and run the
# quick check of the property it was filed under (via try_seeded.sh, /repo is not touched).
# usage: try_reverted_fixes.sh [commit ...]   (default: all fix commits listed in known_findings.txt)
cd /verif
pairs=$(grep '^fixed:' known_findings.txt | sed 's/^fixed: property=\(C[0-9]*\) \([0-9a-f]*\) .*/\2:\1/')
for x in $pairs; do
  h=${x%%:*}; id=${x##*:}
  if [ $# -gt 0 ] && ! echo " $* " | grep -q " $h "; then continue; fi
  git -C /repo diff $h $h^ > /tmp/revfix-$h.diff
  echo "#### revert $h -> $id"
  ./try_seeded.sh /tmp/revfix-$h.diff quick $id 2>&1 | grep -v conda | head -3 | cut -c1-300
  rm -f /tmp/revfix-$h.diff
done
