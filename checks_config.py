"""Per-property configuration of the check driver (./check)."""

ASSUME_COMMON = [
    "go toolchain, pgregory.net/rapid v1.3.0 and the pokerface/syncsaga/timebank modules in the module cache are trusted",
    "the harness drives the engine from one goroutine at decision points where the engine is blocked on external input (DESIGN.md 2.3)",
    "verif-tagged accessors in /repo/verif_hooks.go only read or decorate engine internals",
]

CHECKS = {
    "C01": dict(
        crash_is_violation=True,
        parts=[dict(pkg="table", run="^TestC01$",
                    quick=dict(shards=4, checks=250, timeout=240),
                    thorough=dict(shards=16, checks=3000, timeout=1500))],
        rule="cases = generated table histories (configuration x hands with drawn betting lines and stacked/random decks x buy-in/re-buy/add-on/leave operations between and during hands) driven through the real TableEngine; oracle = chip ledger + per-hand result (settled snapshot cross-checked with a pure replay of the successful backend calls); a case is non-trivial if it contains a side pot, a split pot, a bust, a top-up during a hand or a departure with chips; distinct = distinct abstract traces (config class, op kinds, action kinds per hand, outcome)",
        mandatory=dict(quick=['racing_rebuy_landed_before_open', 'racing_rebuy_landed_after_open', "sidepot", "splitpot", "bust", "leave_with_chips", "ante", "short_deck"]),
        assumptions=ASSUME_COMMON + ["participants of a running hand do not leave mid-hand (caller precondition from PlayersLeave's documented uses)", "bet sizes are legal (pokerface does not validate them)"],
    ),
    "C03": dict(
        crash_is_violation=True,
        parts=[
            dict(pkg="table", run="^TestC03$",
                 quick=dict(shards=2, checks=4000, timeout=240),
                 thorough=dict(shards=16, checks=40000, timeout=1500)),
            dict(pkg="table", run="^TestC03Hands$",
                 quick=dict(shards=2, checks=150, timeout=240),
                 thorough=dict(shards=8, checks=2500, timeout=1500)),
            dict(pkg="table", run="^TestC03Pinned$",
                 quick=dict(shards=1, checks=1, timeout=60),
                 thorough=dict(shards=1, checks=1, timeout=60)),
            dict(pkg="table", run="^TestC03JoinLeave$",
                 quick=dict(shards=6, checks=3000, timeout=240),
                 thorough=dict(shards=16, checks=30000, timeout=1500)),
            dict(pkg="table", run="^FuzzC03$", kind="fuzz", seconds=120),
        ],
        rule="(4) join-then-leave races (c03j, CT/cash tables): the last reserved player sits in - which completes the engine's auto-join group, whose completion callback walks the player list on a goroutine of its own - and the caller issues a departure (PlayersLeave one / two players, UpdateTablePlayers) back to back after a drawn spin of 0-2000 loop iterations; the process must survive (a crash inside pokertable is reported as a violation) and table and seat manager must agree once quiet; (1) stateful sequences of <=30 membership operations (create-with-players, reserve fixed/random/taken/out-of-range/full, re-buy, join, leave one/several/unknown/mixed/duplicate, batch update valid/invalid) on one real TableEngine, seat counts 2..10; (2) the same predicate at every quiescent point of real table histories (after hands); oracle = three-way agreement seat map / player list / seat manager + reference seat model + error => table and seat manager byte-identical; non-trivial = a failing operation after a successful one, or re-use of a vacated seat; distinct = distinct op-class traces; (5, thorough tier only) native coverage-guided fuzzing of the operation sequences of (1): fuzz bytes are decoded into the same bounded draws, same oracle inside the target, executions counted under counters.fuzz_execs",
        mandatory=dict(quick=["err_full", "err_taken", "err_dup_batch", "err_unknown_leave", "err_mixed_leave", "err_range", "err_batch_overflow", "reuse_vacated", "random_seat", "after_hands", "N2", "N10"]),
        assumptions=ASSUME_COMMON + ["the engine may seat a reserved player in by itself (auto-join); the model only demands seated-in for players whose join succeeded"],
    ),
    "C09": dict(
        parts=[
            dict(pkg="gate", run="^TestC09$",
                 quick=dict(shards=8, checks=700, timeout=240),
                 thorough=dict(shards=16, checks=20000, timeout=1800)),
            dict(pkg="gate", run="^TestC09Timeouts$",
                 quick=dict(shards=1, checks=1, timeout=240),
                 thorough=dict(shards=4, checks=1, timeout=1500)),
            dict(pkg="gate", run="^FuzzC09$", kind="fuzz", seconds=60),
        ],
        rule="pre-drawn scenarios on the public open_game_manager API: 1..4 set-ups of 1..10 participants with fresh game counts, ready signals in every order/subset with repetitions and unknown ids, re-set-up with signals still pending or unprocessed, rebuild from GetState(), and (timeout leg, executed side by side) real 1-2 s timeout expiry, rebuilds from a state that carries another timeout than the configuration; every gate call runs under a 10 s guard (a call that never returns is a verdict); oracle = firing log obligations (at most once per set-up, not before the last missing signal unless the timeout elapsed, reported game count/participants/all ready, superseded set-up silent, unknown rejected without state change); non-trivial = >=2 participants and (duplicate | unknown | superseding set-up with pending signals | timeout firing | rebuild); distinct = distinct op sequences",
        mandatory=dict(quick=['same_game_count_again', "empty_setup", "dup", "unknown", "supersede_pending", "timeout_fire", "rebuild", "all_ready_fire", "parts_1", "parts_10"]),
        assumptions=["firing is looked for during a bounded window (30 ms grace after the last operation, 1.5 s margin around timeouts); monotonic time only as a lower bound"],
    ),
    "C02": dict(
        crash_is_violation=True,
        parts=[dict(pkg="table", run="^TestC02$",
                    quick=dict(shards=4, checks=150, timeout=300),
                    thorough=dict(shards=16, checks=2500, timeout=1800)),
               dict(pkg="table", run="^TestC02$",
                    quick=dict(shards=2, checks=150, timeout=300, gomaxprocs=3),
                    thorough=dict(shards=8, checks=2500, timeout=1800, gomaxprocs=3))],
        rule="cases = generated histories with explicit seat layouts (gaps, sitting-out and busted players between participants, dead button / dead small blind after departures and busts), 2..10 participants, both rules, newcomers arriving and non-participants leaving while a hand runs; oracle: the hand's list names every dealt-in player once, is a rotation of the clockwise seat order, entry i starts with M[i]'s bankroll at open, the mapping is unchanged in every later snapshot, every accepted action was applied by the backend to the entry of its submitter, entry i's result is credited to M[i] only; non-trivial = a hand with a gap and (dead dealer | dead SB | sitting-out player between participants) or a membership change during the hand; distinct = distinct abstract traces",
        mandatory=dict(quick=['participant_bought_chips_during_hand', 'dead_dealer', 'dead_sb', 'gap', 'sitout_between', 'inhand_reserve', 'inhand_leave', 'participants_2', 'participants_6']),
        assumptions=ASSUME_COMMON,
    ),
    "C05": dict(
        parts=[dict(pkg="table", run="^TestC05$",
                    quick=dict(shards=4, checks=150, timeout=300),
                    thorough=dict(shards=16, checks=2500, timeout=1800)),
               dict(pkg="table", run="^TestC05AutoSeat$",
                    quick=dict(shards=1, checks=1, timeout=240),
                    thorough=dict(shards=4, checks=1, timeout=600))],
        rule='cases = membership-heavy histories of 3-25 hands (arrivals before and after the first hand at every seat relative to the button, sitting-out players joining later, busts forced by short stacks, re-buys, departures, in-hand arrivals); oracle: three-valued eligibility model on the published button seats (must / must not / either for heads-up<->ring button jumps), continuity, at least two dealt in, bounded wait <= 3 hands; plus (auto-seat part) tables with players who only reserved, a real 17 s wait until the engine has seated them in by itself, table / seat-manager agreement and a first hand that must deal in everybody seated-in with chips; non-trivial = a hand where the dealt-in set differs from all seated players with chips, or a re-buy after a bust; distinct = distinct abstract traces',
        mandatory=dict(quick=['newcomer_between', 'newcomer_outside', 'rebuy_after_bust', 'sitout_then_join', 'someone_waited_or_sat_out', 'waited_1']),
        assumptions=ASSUME_COMMON,
    ),
    "C06": dict(
        parts=[dict(pkg="table", run="^TestC06$",
                    quick=dict(shards=4, checks=150, timeout=300),
                    thorough=dict(shards=16, checks=2500, timeout=1800)),
               dict(pkg="table", run="^TestC06Pinned$",
                    quick=dict(shards=1, checks=1, timeout=120),
                    thorough=dict(shards=1, checks=1, timeout=120))],
        rule='cases = default-rule histories weighted towards button configurations (live/dead dealer, live/dead SB, both dead, heads-up, 2..10 dealt in, sitting-out players between blinds, seat counts 2..10); oracle: validity predicates over the opened snapshot (bb label, sb/dealer labels, every dealt-in player labelled, no label twice, clockwise order from the BB = standard order for the slot count with dead entries removed), hand engine receives the same labels, next-BB order at settlement; non-trivial = a hand with a dead dealer or dead SB or slot count != dealt-in count; distinct = distinct abstract traces',
        mandatory=dict(quick=['dead_dealer', 'dead_sb', 'hu', 'k_3', 'k_6', 'next_bb_checked', 'N_2', 'N_10']),
        assumptions=ASSUME_COMMON,
    ),
    "C07": dict(
        parts=[dict(pkg="table", run="^TestC07$",
                    quick=dict(shards=4, checks=150, timeout=300),
                    thorough=dict(shards=16, checks=2500, timeout=1800)),
               dict(pkg="table", run="^TestC07Retry$",
                    quick=dict(shards=4, checks=3, timeout=300),
                    thorough=dict(shards=16, checks=12, timeout=900)),
               dict(pkg="table", run="^TestC07TimeUp$",
                    quick=dict(shards=4, checks=2, timeout=300),
                    thorough=dict(shards=16, checks=10, timeout=900)),
               dict(pkg="table", run="^TestC07Pinned$",
                    quick=dict(shards=1, checks=1, timeout=240),
                    thorough=dict(shards=1, checks=1, timeout=240)),
               dict(pkg="table", run="^TestC07Interval$",
                    quick=dict(shards=6, checks=4, timeout=300),
                    thorough=dict(shards=16, checks=24, timeout=1200))],
        rule='time-up part (c07t): CT / cash tables with a duration of 1 s; the hand settled after the deadline must still go settled -> standby with every per-hand field reset, and nothing opens by itself afterwards; cases = histories of 2-15 hands with membership changes plus control operations at drawn moments: CloseTable inside the settled callback (continue delay), Close/Release after the gate was armed, repeated SetUpTableGame while the gate is pending or a hand runs; oracle: life-cycle automaton over every published status, game count +1 and fresh game id per opened hand, no open while unsettled, per-hand fields reset at every engine fence, no open after close/release; interval part (c07i): the same histories (1-3 hands) on tables with a real 1 s continue delay; CloseTable / ReleaseTable / UpdateBlind(-1) / an arrival lands at a drawn offset 0-1.4 s after the settlement (both sides of the delayed continue step); whichever came first no hand may open afterwards (if the gate was armed it is completed and watched), and when the operation returned < 0.9 s after the settlement was published (so certainly before the 1 s step) the next hand must not even be set up, and a break must pause; retry part (c07r): the gate fires while blinds are unset (3 ways), so the first open attempt fails and the engine sleeps 3 s before retrying; a drawn script of 1-3 UpdateBlind calls (valid level / break / unset again) lands inside that window; final break => no hand may open (game count 0, no hand state), final valid => hand 1 opens and is created with exactly that level; cases whose script took more than 2.5 s are dropped, not judged; non-trivial = >=3 consecutive hands with a membership change or any control operation; distinct = distinct abstract traces',
        mandatory=dict(quick=['extension_during_settlement', 'table_time_up', 'setup_and_signals_in_settled_cb', 'settled_cb_held_open', 'close_in_settled_cb', 'closed_after_gate_armed', 'released_after_gate_armed', 'double_setup', 'setup_while_hand_runs', 'three_hands_with_change', 'retry_final_break', 'retry_final_valid', 'delay_close', 'delay_release', 'delay_break', 'delay_break_close', 'close_in_settled_cb_on_a_break']),
        assumptions=ASSUME_COMMON,
    ),
    "C08": dict(
        crash_is_violation=True,
        parts=[dict(pkg="table", run="^TestC08$",
                    quick=dict(shards=8, checks=80, timeout=300),
                    thorough=dict(shards=16, checks=450, timeout=1800)),
               dict(pkg="table", run="^TestC08Pinned$",
                    quick=dict(shards=1, checks=1, timeout=120),
                    thorough=dict(shards=1, checks=1, timeout=120)),
               dict(pkg="table", run="^TestC08Interval$",
                    quick=dict(shards=7, checks=5, timeout=300),
                    thorough=dict(shards=16, checks=40, timeout=1500))],
        rule="interval part (c08i): the same histories (2-5 hands) with a real 1 s continue delay; a drawn operation lands 0-0.6 s into it - a busted player buys chips (re-buy / add-on), a break starts, a break set during the hand ends, somebody arrives - and pause-iff is judged on what is true when the interval elapses, only for hands whose operation returned < 0.9 s after the settlement was published (others excluded and counted); cases = histories engineered for awkward continuations (short stacks, heads-up busts with bystanders, everybody but one busting, arrivals during the hand and while the gate is armed, settlement-finish signals from every subset/order of the expected players incl. none and from non-expected players, breaks); the harness issues nothing but the drawn signals between settlement and the next open; oracle: pause iff break or fewer players with chips than the minimum, otherwise gate armed by the engine and the next hand opens (at once or after the 2 s timeout) and is played out; non-trivial = a continuation whose participants differ from the previous hand's, a partial signal set, or a pause; distinct = distinct abstract traces",
        mandatory=dict(quick=['delay_busted_player_buys_chips', 'delay_break_starts', 'signals_none', 'signals_some', 'signals_all', 'signals_extra', 'pause_min_players', 'pause_break', 'participants_changed', 'arrival_during_gate', 'all_but_one_bust']),
        assumptions=ASSUME_COMMON,
    ),
    "C10": dict(
        crash_is_violation=True,
        parts=[dict(pkg="table", run="^TestC10$",
                    quick=dict(shards=4, checks=150, timeout=300),
                    thorough=dict(shards=16, checks=2500, timeout=1800)),
               dict(pkg="table", run="^TestC10Burst$",
                    quick=dict(shards=3, checks=120, timeout=300),
                    thorough=dict(shards=12, checks=2000, timeout=1800))],
        rule='cases = generated table histories in which, at every decision point (group requests, turns, after settlement, paused), 0-3 intruder attempts are drawn from a 5x9 actor/action matrix (current player with a disallowed kind, other participant, folded/all-in participant, seated non-participant, stranger) x (fold check call bet raise allin pass ready pay); oracle: an attempt the hand does not allow returns an error and table JSON, hand-state JSON, successful backend calls and emitted events are identical before and after; every accepted driver action is applied exactly once and announced once with player, seat, action, round, hand; concurrent part (c10b): at drawn turns every player at the table and strangers submit an action at the same instant - accepted submissions = announced actions, each successful backend call belongs to the entry whose turn it then was, the hand still settles with chips conserved and equal to the pure replay; accepted ante / blind payments are matched per phase against the pay events when the hand is settled (a phase of which nothing was announced is excluded); non-trivial = a case with >=1 refused attempt by a dealt-in player out of turn and >=1 by a non-participant; distinct = distinct abstract traces',
        mandatory=dict(quick=['accepted_pay_announced', 'ante_and_blind_paid_by_one_player', 'inhand_leave_below_participant', 'inhand_leave', 'table_stopped_mid_hand_PauseTable', 'table_stopped_mid_hand_CloseTable', 'cell:current/pass', 'cell:participant/fold', 'cell:inactive/check', 'cell:nonparticipant/call', 'cell:stranger/bet', 'attempt_group_request', 'attempt_after_settle', 'attempt_when_paused']),
        assumptions=ASSUME_COMMON,
    ),
    "C11": dict(
        crash_is_violation=True,
        parts=[dict(pkg="table", run="^TestC11$",
                    quick=dict(shards=4, checks=150, timeout=300),
                    thorough=dict(shards=16, checks=2500, timeout=1800)),
               dict(pkg="table", run="^TestC11Timeout$",
                    quick=dict(shards=1, checks=1, timeout=120),
                    thorough=dict(shards=4, checks=1, timeout=300))],
        rule="cases = generated hands (2..10 participants, ante on/off, dealer-blind and no-SB structures, every temperament) with drawn response orders and, with probability 0.3 per request, one withheld responder; oracle: asked set = statement's set = hand's ready-group participants; no backend step and no event change while one response is missing (after the others were processed); every opened hand settles with one result entry per participant; plus a timeout leg (tables side by side, one responder silent forever: advance not before 17 s after the causing call, not later than 17 s + margin); non-trivial = a withheld response or a skipped round; distinct = distinct abstract traces",
        mandatory=dict(quick=['withheld_ready', 'withheld_ante', 'withheld_blinds', 'round_skipped', 'dealer_blind', 'no_sb', 'request_ante', 'timeout_leg']),
        assumptions=ASSUME_COMMON,
    ),
    "C12": dict(
        parts=[dict(pkg="table", run="^TestC12$",
                    quick=dict(shards=4, checks=150, timeout=300),
                    thorough=dict(shards=16, checks=2500, timeout=1800)),
               dict(pkg="table", run="^TestC12Retry$",
                    quick=dict(shards=4, checks=3, timeout=300),
                    thorough=dict(shards=16, checks=12, timeout=900)),
               dict(pkg="table", run="^TestC12Interval$",
                    quick=dict(shards=6, checks=5, timeout=300),
                    thorough=dict(shards=16, checks=40, timeout=1500))],
        rule='interval part (c12i): 1-3 hands with a real 1 s continue delay; a break (or a new level) is set 0-0.6 s after the settlement; when that returned < 0.9 s after the settlement was published the table must pause; retry part (c12r, shared with C07): the gate fires while blinds are unset, the first open attempt fails, a drawn 1-3 step blind script lands inside the 3 s retry window; final break => no hand opens, final valid level => hand 1 is created with exactly that level (not the blinds of the failed attempt); cases = generated histories with a drawn blind schedule: UpdateBlind between hands (before the open trigger), at in-hand decision points, breaks (-1) between hands and during hands, resume from a break, tables created on a break; oracle: options handed to the backend, hand meta and published game blind level = values in force when the harness released the open trigger; ante/blinds actually charged = min(amount, stack) per position; mid-hand updates change only later hands; no open and no button movement on a break; pause after a hand whose level became a break; non-trivial = a blind update or a break; distinct = distinct abstract traces',
        mandatory=dict(quick=['break_in_continue_delay', 'retry_final_valid', 'retry_final_break', 'update_inhand', 'update_between', 'update_same_level_number', 'update_while_hand_is_created', 'update_in_first_snapshot_callback', 'break_after_hand', 'break_no_open', 'resume_from_break', 'created_on_break', 'ante_checked', 'blinds_checked']),
        assumptions=ASSUME_COMMON,
    ),
    "C13": dict(
        crash_is_violation=True,
        parts=[dict(pkg="table", run="^TestC13$",
                    quick=dict(shards=4, checks=150, timeout=300),
                    thorough=dict(shards=16, checks=2500, timeout=1800))],
        rule='cases = generated hands whose backend executes a drawn fault plan (player-action calls by ordinal failing 1-3 consecutive times; optionally one engine-step call - CreateGame/ReadyForAll/PayAnte/PayBlinds/Next - failing); oracle: failed action returns the injected error and table JSON, hand JSON and action events are unchanged, the resubmitted action succeeds, every backend call receives the result of the last successful call, the settled hand equals a pure replay of the successful calls, an engine-step failure reaches the table error callback; non-trivial = a hand with an injected player-action failure that later settles, or a reported engine-step failure; distinct = distinct abstract traces',
        mandatory=dict(quick=['fault_lost_reply_planned', 'fail_fold', 'fail_check', 'fail_call', 'fail_raise', 'fail_allin', 'fail_pass', 'fail_then_settle', 'engine_step_failure_reported', 'repeat_fail_2', 'repeat_fail_3']),
        assumptions=ASSUME_COMMON,
    ),
    "C14": dict(
        parts=[dict(pkg="table", run="^TestC14$",
                    quick=dict(shards=4, checks=150, timeout=300),
                    thorough=dict(shards=16, checks=2500, timeout=1800)),
               # few scheduler threads: the engine's updater goroutine and the caller compete for
               # them, which is what exposed the fold-round race of the pinned tree (DESIGN 9)
               dict(pkg="table", run="^TestC14$",
                    quick=dict(shards=2, checks=200, timeout=300, gomaxprocs=3),
                    thorough=dict(shards=8, checks=2500, timeout=1800, gomaxprocs=3))],
        rule='cases = generated hands with raise-heavy temperaments; oracle: at settlement ActionTimes/CallTimes/CheckTimes = accepted submissions of that kind, raises <= actions, fold flag and round exactly for accepted folds, every did-flag implies its chance flag and at most one 3-bet holder at every published snapshot, statistics zero at the fence and at the next open; non-trivial = a hand with a raise and a fold or any did-flag set; distinct = distinct abstract traces',
        mandatory=dict(quick=['refused_attempt', 'refused_fold', 'did_3b', 'did_showdown', 'participants_2', 'participants_5']),
        assumptions=ASSUME_COMMON,
    ),
    "C15": dict(
        parts=[dict(pkg="table", run="^TestC15$",
                    quick=dict(shards=4, checks=150, timeout=300),
                    thorough=dict(shards=16, checks=2500, timeout=1800))],
        rule='cases = generated hands with action time 0..30 s and 0-3 deadline extensions of 0..60 s at turns; oracle: for every turn of an unmoved player with wager actions t0+ActionTime <= deadline <= t1+ActionTime (t0 before the causing call, t1 at receipt), deadline 0 on every round close, at open and between hands, extension returns and publishes old+d exactly; non-trivial = a hand with turns in >=2 rounds or an extension; distinct = distinct abstract traces',
        mandatory=dict(quick=['round_closed_while_backend_next_failed', 'extension_during_settlement', 'turns', 'extension', 'extension_x3', 'action_time_0', 'multi_round_turns']),
        assumptions=ASSUME_COMMON,
    ),
    "C16": dict(
        crash_is_violation=True,
        parts=[
            dict(pkg="seat", run="^TestC16SeatManager$",
                 quick=dict(shards=2, checks=400, timeout=240),
                 thorough=dict(shards=8, checks=800, timeout=1800)),
            dict(pkg="seat", run="^TestC16SeatManager$",
                 quick=dict(shards=1, checks=300, timeout=240, gomaxprocs=2),
                 thorough=dict(shards=4, checks=400, timeout=1800, gomaxprocs=2)),
            dict(pkg="table", run="^TestC16Membership$",
                 quick=dict(shards=2, checks=250, timeout=240),
                 thorough=dict(shards=8, checks=3000, timeout=1800)),
            dict(pkg="table", run="^TestC16Membership$",
                 quick=dict(shards=1, checks=200, timeout=240, gomaxprocs=4),
                 thorough=dict(shards=4, checks=2000, timeout=1800, gomaxprocs=4)),
            dict(pkg="table", run="^TestC16Actions$",
                 quick=dict(shards=3, checks=120, timeout=300),
                 thorough=dict(shards=12, checks=1250, timeout=1800)),
            dict(pkg="table", run="^TestC16Actions$",
                 quick=dict(shards=1, checks=100, timeout=300, gomaxprocs=2),
                 thorough=dict(shards=4, checks=750, timeout=1800, gomaxprocs=2)),
        ],
        rule="generated concurrent workloads released by a barrier, N goroutines 2..16 (quick) / 2..48 (thorough), at several GOMAXPROCS values: (a) seat-manager AssignSeats/RandomAssignSeats/RemoveSeats/JoinPlayers/UpdatePlayerHasChips bursts with colliding seats; (b) table PlayerReserve (fixed colliding seats, random seats up to and beyond capacity, re-buys) / PlayersLeave / UpdateTablePlayers bursts on a table before its first hand; (c) at a drawn turn of a real hand every player at the table and strangers submit an action at once; oracle: (a)(b) the history is linearizable with respect to the sequential seat model (porcupine, nondeterministic for random seats) and the C03 consistency predicate holds afterwards; (c) accepted submissions = announced actions, every successful backend call was made for the entry whose turn it then was, the hand settles with chips conserved; a fatal runtime error of the process is a violation; non-trivial = a burst with conflicting operations (same seat / capacity edge / same turn); distinct = distinct workloads",
        mandatory=dict(quick=['reservations_racing_with_open', 'leave_via_batch_update', "conflict_same_seat", "capacity_edge", "overlapping", "burst", "accepted_per_burst_1", "GOMAXPROCS2", "GOMAXPROCS16"]),
        assumptions=ASSUME_COMMON + ["schedules are sampled (Go runtime scheduler), not enumerated", "UpdateTablePlayers batches mixing leaves and joins are left out of the concurrent workload (recorded C03 finding: not atomic even sequentially)", "PlayerJoin / PlayerRedeemChips / PlayerSettlementFinish take no lock and are outside the statement's list"],
    ),
    "C17": dict(
        parts=[
            dict(pkg="table", run="^TestC17$",
                 quick=dict(shards=2, checks=700, timeout=240),
                 thorough=dict(shards=8, checks=20000, timeout=1800)),
            dict(pkg="table", run="^TestC17Facade$",
                 quick=dict(shards=4, checks=100, timeout=300),
                 thorough=dict(shards=16, checks=2000, timeout=1800)),
            dict(pkg="table", run="^TestC17Callbacks$",
                 quick=dict(shards=4, checks=3, timeout=300),
                 thorough=dict(shards=16, checks=12, timeout=900)),
        ],
        rule="callback part (c17cb): the same generated CT / cash scenario (table duration 1 s, one hand played after it is over) on a bare engine with hand-registered callbacks and on a table created through the Manager; every callback kind the bare engine delivers (table, state, player-state, reserved, action, first-game, auto-open-end) must also be delivered by the manager-created table; (1) facade: the whole table-history driver (create, start, set-up, settlement-finish, reserve/join/re-buy/add-on/leave, blind update, deadline extension, all nine game actions incl. intruder attempts) is routed through Manager.X(tableID, ...) and the oracles of C01, C10, C12 and C15 apply unchanged; (2) twin managers with 1..6 tables and identical settings: a drawn sequence over all 25 manager methods is applied through the manager on one and through the engine obtained with GetTableEngine on the other; results (errors by text, values) and normalised table state must agree after every step; (3) every other table's state is byte-identical before and after each operation; (4) never-created / closed / released ids yield ErrManagerTableNotFound (-1 for the deadline); non-trivial = a sequence touching >=2 tables with at least one method of each group; distinct = distinct method sequences",
        mandatory=dict(quick=['continue_interval_0', 'players_leave_empty_list', 'callback_autoend', 'callbacks_cash', 'callbacks_ct', "m:PauseTable", "m:CloseTable", "m:ReleaseTable", "m:StartTableGame", "m:UpdateBlind", "m:SetUpTableGame", "m:UpdateTablePlayers", "m:PlayerReserve", "m:PlayerJoin", "m:PlayerSettlementFinish", "m:PlayerRedeemChips", "m:PlayersLeave", "m:PlayerExtendActionDeadline", "m:PlayerReady", "m:PlayerPay", "m:PlayerBet", "m:PlayerRaise", "m:PlayerCall", "m:PlayerAllin", "m:PlayerCheck", "m:PlayerFold", "m:PlayerPass", "m:GetTableEngine", "m:CreateTable", "unknown_id", "closed_id", "released_id", "tables_6", "refused_create"]),
        assumptions=ASSUME_COMMON + ["hands are not twinned (the manager builds its own backend); hand-level effects of the player-game methods are covered by the facade part"],
    ),
    "C18": dict(
        crash_is_violation=True,
        parts=[
            dict(pkg="actor", run="^TestC18$",
                 quick=dict(shards=4, checks=60, timeout=300),
                 thorough=dict(shards=16, checks=1500, timeout=1800)),
            dict(pkg="actor", run="^TestC18Tables$",
                 quick=dict(shards=1, checks=1, timeout=300),
                 thorough=dict(shards=4, checks=1, timeout=1800)),
        ],
        rule="(1) real snapshots published at the decision points of generated hands (stacks from one chip, blinds above stacks, antes, facing all-ins, every request kind) are presented K=6 (quick) / 20 (thorough) times to fresh bots for every player at the table and a stranger through a recording Adapter; oracle: silent when not asked or stale, otherwise exactly one call for itself that the real hand engine accepts for the real state, allowed kind, legal amount; (2) tables played entirely by bots through the real adapter: no move rejected, hands settle (progress-based); non-trivial = a state where the asked stack is <= the minimum bet, faces an all-in or has only allin/fold, or a table hand with an all-in; distinct = distinct generated histories",
        mandatory=dict(quick=['pay_with_table_level_raised_during_hand', 'stale_view_after_following_the_hand', "stack_le_minbet", "facing_allin", "chose_bet", "chose_raise", "chose_call", "chose_check", "chose_fold", "chose_allin", "chose_pass", "chose_pay", "stale_view", "not_asked", "bot_table"]),
        assumptions=["the bot's random source cannot be seeded: each state is sampled K times", "humanized mode (real thinking delays) is not exercised"],
    ),
    "C19": dict(
        parts=[
            dict(pkg="actor", run="^TestC19$",
                 quick=dict(shards=4, checks=60, timeout=300),
                 thorough=dict(shards=16, checks=1500, timeout=1800)),
            dict(pkg="actor", run="^TestC19Timed$",
                 quick=dict(shards=1, checks=1, timeout=300),
                 thorough=dict(shards=4, checks=1, timeout=1800)),
        ],
        rule="real decision-point snapshots presented to fresh player runners for every player and a stranger in status running / idle / suspended with action time 0, plus a timed batch (1-2 s thinking time, armed together, judged after one wait) in which half of the runners first go through a drawn history of status calls (Idle / Resume / Suspend / SetSuspendThreshold), requests that time out at once and manual actions; a model of that status interface says whether the final request must wait (running or idle below the threshold), is answered at once (explicit Suspend) or either (suspended by count); oracle: never call/bet/raise/allin, pass immediately when it is the only option, otherwise the conservative choice (ready > check > fold > mandatory payment of exactly the posted size) immediately when suspended or action time 0, else not before the thinking time and the conservative choice afterwards, at most one call, nothing when not asked; non-trivial = conservative choice differs from the first allowed action, a mandatory payment, or a timed case; distinct = distinct generated histories / presentations",
        mandatory=dict(quick=['history_request_overtaken', 'late_update_without_request', 'pay_with_table_level_raised_during_hand', "choice_pass", "choice_ready", "choice_check", "choice_fold", "choice_pay_ante", "choice_pay_sb", "choice_pay_bb", "suspended", "idle", "timed_1s", "timed_2s", "history_expect_wait", "history_expect_now", "history_idle_call_after_timeouts"]),
        assumptions=["the upper side (acts once the time is up) relies on a 1.5 s margin"],
    ),
    "C20": dict(
        parts=[dict(pkg="actor", run="^TestC20$",
                    quick=dict(shards=4, checks=100, timeout=300),
                    thorough=dict(shards=16, checks=2500, timeout=1800))],
        rule="every table notification (OnTableUpdated and OnTableStateUpdated) of generated hands, including the re-publications caused by table-level operations during a hand (reserve / join / re-buy / add-on / deadline extension), (all statuses and hand phases, showdown and fold-out endings, and hands that keep running after an external PauseTable / CloseTable) is handed - inside the engine's callback, as the engine's live table - to 1..5 actors attached in a drawn order (non-system observer, system observer, a scribbling system observer, a player runner) through the real TableEngineAdapter; oracle: the non-system observer is never shown deck, burned cards, hole cards or hand strength while the hand is in play, nor those of folded players after it closed; the engine's table is unchanged by the fan-out; no actor shares structure with the engine or another actor; what one actor changes is invisible to the others; the system observer gets the unmasked copy; non-trivial = a snapshot with dealt hole cards or a closed hand with folded and shown players; distinct = distinct generated histories",
        mandatory=dict(quick=['older_snapshot_delivered_late', 'observer_attached_during_hand', 'system_mode_switched_off_mid_hand', "playing_with_cards", "closed_showdown_with_fold", "closed_foldout", "paused_during_hand", "table_level_op_during_hand", "actors_1", "actors_5"]),
        assumptions=["only snapshots the engine emits are presented"],
    ),
    "C04": dict(
        parts=[
            dict(pkg="seat", run="^TestC04Rapid$",
                 quick=dict(shards=2, checks=6000, timeout=200),
                 thorough=dict(shards=16, checks=150000, timeout=1500)),
            dict(pkg="seat", run="^TestC04Exhaustive$",
                 quick=dict(shards=1, checks=1, timeout=300),
                 thorough=dict(shards=1, checks=1, timeout=2400)),
            dict(pkg="seat", run="^TestC04Pinned$",
                 quick=dict(shards=1, checks=1, timeout=60),
                 thorough=dict(shards=1, checks=1, timeout=60)),
            dict(pkg="seat", run="^FuzzC04$", kind="fuzz", seconds=90),
        ],
        exhaustive_checks=["c04x"],
        exhaustive_scope="breadth-first enumeration of every reachable observable seat-manager state for seat counts 2..4 (quick) / 2..5 (thorough), both rules, deterministic operations (assign/join/bust/re-buy/leave/init/rotate); every transition checked; seat counts 6..10 and random seat/button choices are sampled by the rapid part",
        rule="(1) rapid: sequences of <=60 seat-manager operations on seat counts 2..10, both rules; (2) exhaustive BFS over all reachable states for small seat counts; oracle = dead-button relation between the state before and after each rotation plus state invariants; non-trivial = a rotation with a dead dealer / dead small blind, a heads-up<->ring transition, or a seat count other than 9; distinct = distinct op/button traces (rapid) and distinct (state, rotation) pairs (BFS)",
        mandatory=dict(quick=["N2", "N3", "N4", "N5", "N6", "N7", "N8", "N9", "N10", "dead_dealer", "dead_sb", "hu_to_ring", "ring_to_hu", "refused", "short_deck", "waiting_player_present"]),
        assumptions=["the seat manager's exported JSON fields are its whole state (used to clone states in the BFS; cross-checked against op-path replay on a sample)"],
    ),
}

LEVELS = {
    "C01": dict(
        text="Generated search over table histories with a chip-ledger reference model and a per-hand result oracle (table result cross-checked with a pure replay of the successful backend calls). Exploration is the right level: the property quantifies over unbounded histories through an asynchronous engine with its own randomness; the check samples thousands of structured histories, measures which classes were reached and shrinks failures.",
        design_ref="DESIGN.md section 3 C01", technique="stateful property-based testing (rapid) with a ledger reference model and differential replay oracle",
        note="Trusts pokerface's settlement arithmetic only through the zero-sum and replay cross-checks; assumes legal bet sizes and that hand participants do not leave mid-hand."),
    "C04": dict(
        text="Dead-button relation checked on every rotation of (1) >10^4 generated operation sequences on seat counts 2..10 and both rules and (2) every reachable state of the real seat manager for small seat counts (exhaustive BFS, all transitions). Exhaustive for N<=4 (quick) / N<=5 (thorough), sampled above.",
        design_ref="DESIGN.md section 3 C04", technique="stateful property-based testing (rapid) + small-scope exhaustive state enumeration of the real implementation with a relational oracle",
        note="The oracle is written from the property statement; random seat and random initial button are only sampled. Two recorded findings are excluded from further exploration (known_findings.txt)."),
}

LEVELS["C03"] = dict(
    text="Stateful generated membership histories against a reference seat model with a three-way consistency predicate after every operation and a byte-identical all-or-nothing check after every error; repeated at the quiescent points of real multi-hand histories.",
    design_ref="DESIGN.md section 3 C03", technique="stateful property-based testing (rapid) with a reference model and state-unchanged-on-error oracle",
    note="Sequential only (concurrency is C16). One recorded finding (UpdateTablePlayers leave-then-failing-join) is excluded from the campaign after one pinned demonstration per process.")
LEVELS["C09"] = dict(
    text="Generated gate scenarios judged against the firing-log obligations of the statement; thousands of orders/subsets/repetitions/superseding set-ups per run plus a side-by-side batch with real timeout expiry. Schedule-dependent defects are sampled, not enumerated.",
    design_ref="DESIGN.md section 3 C09", technique="property-based testing (rapid) over pre-drawn operation scenarios with a history (firing log) oracle",
    note="'Never fires twice / never fires' are bounded observation windows; concurrent callers are not part of this check.")

def _lv(text, ref, tech, note):
    return dict(text=text, design_ref=ref, technique=tech, note=note)

LEVELS["C10"] = _lv("Generated intruder attempts at every kind of decision point with a byte-identical-state oracle for refusals and an exactly-once/announced oracle for acceptances; the full 5x9 actor/action matrix is hit in every run.", "DESIGN.md section 3 C10", "stateful property-based testing (rapid): metamorphic state-unchanged oracle over generated illegal actions", "Sequential attempts in c10, simultaneous submissions in c10b (concurrent submission is C16). Attempts are made at quiescent decision points.")
LEVELS["C11"] = _lv("Generated response orders and withheld responders against the asked-set, no-early-advance, self-advance and termination obligations, plus a real 17 s timeout leg run side by side.", "DESIGN.md section 3 C11", "stateful property-based testing (rapid) with a history oracle over the backend call log; batched real-timeout sampling", "No-early-advance is checked after the other responses were observed as processed through the ready-group accessor; a premature advance still in flight could be missed (false negative only).")
LEVELS["C12"] = _lv("Generated blind schedules with updates at ordered moments relative to the open; the in-force values are tracked by the harness and compared with what the backend was given, what was charged and what was published.", "DESIGN.md section 3 C12", "stateful property-based testing (rapid) with a reference model of the blinds in force", "pokerface skips blind collection for BB-only structures (labelled, not blamed on the table).")
LEVELS["C13"] = _lv("Generated fault plans through the public GameBackend interface; unchanged-on-failure, chain-integrity and differential pure-replay oracles.", "DESIGN.md section 3 C13", "fault-injecting property-based testing (rapid) with a differential replay oracle", "Failures are injected before the real backend is reached or after it worked (lost reply); a backend that returns a corrupted state together with nil is not generated.")
LEVELS["C14"] = _lv("Counters compared with the harness's log of accepted actions, flag implications checked on every published snapshot.", "DESIGN.md section 3 C14", "stateful property-based testing (rapid) with an action-log reference model", "On this tree most chance flags are never set (validateGameStatisticGameState tests for the event 'Started'), so their implications hold vacuously; reported in DESIGN.md.")
LEVELS["C15"] = _lv("Wall-clock bracket (no tolerance constant) on every turn deadline, exact arithmetic on extensions, cleared-at checks.", "DESIGN.md section 3 C15", "stateful property-based testing (rapid) with an interval oracle", "Second granularity: errors below the bracket width are invisible.")

LEVELS["C02"] = _lv("Generated layouts and in-hand membership changes against a fixed index->player map observed through stacks, ids and the backend call log.", "DESIGN.md section 3 C02", "stateful property-based testing (rapid) with a relational oracle over published snapshots and the backend call log", "Stacks are drawn so that a swap is visible; identity is observed through ids and stacks only.")
LEVELS["C05"] = _lv("Generated arrival/bust/re-buy histories against a three-valued eligibility model computed from the published button seats; heads-up<->ring button jumps are accepted either way.", "DESIGN.md section 3 C05", "stateful property-based testing (rapid) with a three-valued reference model", "Bounded wait is checked on histories of at most 25 hands; histories that reach button seats of a recorded C04 finding are excluded (counted).")
LEVELS["C06"] = _lv("Validity predicates over every opened and settled snapshot of generated default-rule histories; the standard order table is written independently of position.go.", "DESIGN.md section 3 C06", "stateful property-based testing (rapid) with validity predicates", "Histories that reach button seats of a recorded C04 finding are excluded (counted).")
LEVELS["C07"] = _lv("Life-cycle automaton and numbering/reset/no-open obligations over generated histories with control operations at deterministic moments.", "DESIGN.md section 3 C07", "stateful property-based testing (rapid) with a life-cycle automaton oracle", "Timing of the asynchronous trigger is sampled at deterministic moments plus scheduler noise; the open retry path is entered through unset blinds with a 1-3 step blind script inside the first 3 s window only (later retries are not scripted).")
LEVELS["C08"] = _lv("Bounded-progress oracle on generated continuations: the harness issues only the drawn signals and requires pause-iff and the next hand to open and be played out.", "DESIGN.md section 3 C08", "stateful property-based testing (rapid) with pause-iff and bounded-progress oracles", "Liveness is bounded progress on generated histories (3 s beyond the longest armed timer); a refused rotation from the recorded C04 finding is reported as its own known finding.")

LEVELS["C16"] = _lv("Generated concurrent bursts (barrier-released goroutines, several GOMAXPROCS values) with a porcupine linearizability oracle against the sequential seat model for membership, and a backend-call-log oracle for simultaneous game actions.", "DESIGN.md section 3 C16", "randomized concurrent workload generation (rapid) with a linearizability oracle (porcupine) and history oracles", "Schedules are sampled, not enumerated: a violation that needs one particular preemption may never be drawn. The Go race detector is not used as an oracle.")
LEVELS["C17"] = _lv("All 25 manager methods exercised in generated multi-table interleavings: differential (manager vs. engine twin), bystander-identity and not-found oracles, plus the history driver routed through the manager under the other properties' oracles.", "DESIGN.md section 3 C17", "property-based differential testing (rapid): twin execution manager vs. engine, metamorphic bystander identity", "Manager.Reset is only checked for 'all ids become not-found'.")
LEVELS["C18"] = _lv("Real engine snapshots at generated decision points, each sampled K times against fresh bots; the real hand engine is the acceptance oracle; plus whole bot tables through the real adapter.", "DESIGN.md section 3 C18", "property-based testing (rapid) over real reachable hand states with the hand engine as acceptance oracle; repeated sampling of the bot's own randomness", "The bot's randomness cannot be pinned: a rare illegal amount has probability, not certainty, of being drawn.")
LEVELS["C19"] = _lv("Real engine snapshots presented to player runners in every status; conservative-choice rule as the oracle; real thinking times paid once per batch.", "DESIGN.md section 3 C19", "property-based testing (rapid) over real reachable hand states with a decision-table oracle; batched real-time sampling", "Lower time bound only (monotonic clock); the upper side uses a margin.")
LEVELS["C20"] = _lv("Every notification of generated hands fanned out inside the engine callback to drawn actor sets through the real adapter; hidden-fields predicate and structural/mutation isolation oracles.", "DESIGN.md section 3 C20", "property-based testing (rapid) with validity predicates and pointer/mutation isolation oracles", "Only shapes the engine emits are presented.")

NOT_APPLICABLE = []
