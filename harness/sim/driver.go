package sim

import (
	"encoding/json"
	"errors"
	"fmt"
	"sort"
	"sync/atomic"
	"time"

	"github.com/weedbox/pokerface"
	"github.com/weedbox/pokertable"

	"verif/harness/backend"
	"verif/harness/choose"
)

// Decision is a point where the engine is blocked on external input.
type Decision struct {
	Kind   string // ready | ante | blinds | turn
	Ev     *Event
	Table  *pokertable.Table
	GS     *pokerface.GameState
	M      []string // game index -> player id at this snapshot
	Asked  []string // players asked to respond (group) or the current player (turn)
	Cur    int      // current player game index (turn)
	Round  string
	Serial int64
}

// ActionRec is one game action submitted by the driver (or a hook).
type ActionRec struct {
	Hand    int
	PID     string
	GameIdx int
	Kind    string // ready pay fold check call bet raise allin pass
	Arg     int64
	Round   string
	Event   string
	Err     error
	Allowed []string
	T0, T1  time.Time
}

// Hand records one hand as driven.
type Hand struct {
	N         int
	GameCount int
	Opened    *pokertable.Table // "tableGameOpen" snapshot
	Before    *pokertable.Table // last snapshot before the open trigger (fence sample)
	First     *pokertable.Table // first snapshot with a hand state
	SettledT  *pokertable.Table // GameSettled snapshot
	SettledAt time.Time         // when the engine published it (before it armed its continue delay)
	After     *pokertable.Table // fence sample after continue (standby / pausing)
	M         []string          // game index -> player id at open
	Actions   []*ActionRec
	Decisions int
	Turns     int
	Temper    int
	Rounds    map[string]bool
	Outcome   string // gate | paused | none | stall | error
	NextGate  *GateSetup
	BEHand    *backend.Hand
	BECallLo  int // index into BE.All of this hand's CreateGame
	Snapshots int
	Withheld  bool // a settlement-finish signal was withheld before this hand (2 s wait happened)
}

// Temperaments
const (
	TemperPassive = iota
	TemperMixed
	TemperAggressive
	TemperShove
	TemperFoldOut
	TemperRaiseWar
	nTemper
)

var ErrStall = errors.New("sim: stalled")

// Submit performs one game action through the API and records it.
func (s *Sim) Submit(pid string, gameIdx int, kind string, arg int64, d *Decision) *ActionRec {
	a := &ActionRec{PID: pid, GameIdx: gameIdx, Kind: kind, Arg: arg, T0: time.Now()}
	if s.Cur != nil {
		a.Hand = s.Cur.N
	}
	if d != nil {
		a.Round = d.Round
		a.Event = d.GS.Status.CurrentEvent
		if p := d.GS.GetPlayer(gameIdx); p != nil {
			a.Allowed = append([]string(nil), p.AllowedActions...)
		}
	}
	a.Err = s.Do(pid, kind, arg)
	a.T1 = time.Now()
	return a
}

// Do dispatches an action kind to the API.
// ErrHung is returned by Do when CallGuard is set and the engine call did not return.
var ErrHung = errors.New("sim: the engine call never returned")

func (s *Sim) Do(pid, kind string, arg int64) error {
	if s.CallGuard <= 0 {
		return s.do(pid, kind, arg)
	}
	done := make(chan error, 1)
	go func() { done <- s.do(pid, kind, arg) }()
	wait := s.CallGuard
	for round := 0; ; round++ {
		select {
		case err := <-done:
			return err
		case <-time.After(wait):
		}
		if round == 0 && starved() {
			wait = 4 * s.CallGuard
			continue
		}
		s.Hung = fmt.Sprintf("%s by %s did not return within %v", kind, pid, s.CallGuard)
		return ErrHung
	}
}

func (s *Sim) do(pid, kind string, arg int64) error {
	atomic.AddInt64(&s.opSeq, 1)
	defer atomic.AddInt64(&s.opSeq, 1)
	switch kind {
	case "ready":
		return s.API.PlayerReady(pid)
	case "pay":
		return s.API.PlayerPay(pid, arg)
	case "fold":
		return s.API.PlayerFold(pid)
	case "check":
		return s.API.PlayerCheck(pid)
	case "call":
		return s.API.PlayerCall(pid)
	case "bet":
		return s.API.PlayerBet(pid, arg)
	case "raise":
		return s.API.PlayerRaise(pid, arg)
	case "allin":
		return s.API.PlayerAllin(pid)
	case "pass":
		return s.API.PlayerPass(pid)
	}
	return fmt.Errorf("sim: unknown action kind %q", kind)
}

// StartFirst calls StartTableGame, waits for the first-game callback and sets
// up the gate for the first hand with the given participants (nil = all
// seated-in players with chips).
func (s *Sim) StartFirst(participants []string) bool {
	s.Drain()
	s.backlog = nil
	if !s.FirstGame && s.Cfg.Mode == pokertable.CompetitionMode_MTT {
		// MTT tables start by themselves (from the auto-join group's goroutine) once every
		// reserved player has sat in and two of them have chips; give that a moment
		now := s.Now()
		allIn := len(now.State.PlayerStates) >= 2
		for _, p := range now.State.PlayerStates {
			if !p.IsIn {
				allIn = false
			}
		}
		if allIn && len(AlivePlayers(now)) >= 2 && now.State.BlindState.Level > 0 {
			if ev := s.waitForD(1500*time.Millisecond, func(ev *Event) bool { return ev.Kind == "firstgame" }); ev != nil {
				s.Label("mtt_auto_start")
			}
		}
	}
	if !s.FirstGame {
		if err := s.API.StartTableGame(); err != nil {
			s.Stall = "StartTableGame: " + err.Error()
			return false
		}
		if ev := s.waitForD(s.StepWait, func(ev *Event) bool { return ev.Kind == "firstgame" }); ev == nil {
			s.Stall = "no first-game callback"
			return false
		}
		if s.Cfg.Mode == pokertable.CompetitionMode_MTT {
			s.Label("mtt_manual_start")
		}
	}
	s.FirstGame = false
	return s.SetupGate(participants)
}

// SetupGate arms the open-game gate from outside (first hand, or after a pause).
func (s *Sim) SetupGate(participants []string) bool {
	t := s.Now()
	if participants == nil {
		participants = LivePlayers(t)
	}
	m := map[string]int{}
	for i, id := range participants {
		m[id] = i
	}
	s.Ch.Note("SetUpTableGame(%d,[%s])", t.State.GameCount+1, joinStr(participants))
	if err := s.API.SetUpTableGame(t.State.GameCount+1, m); err != nil {
		s.Stall = "SetUpTableGame: " + err.Error()
		return false
	}
	if ev := s.waitForD(s.StepWait, func(ev *Event) bool { return ev.Kind == "gate" }); ev == nil {
		s.Stall = "no gate fence after SetUpTableGame"
		return false
	}
	return true
}

// SignalPlan says which settlement-finish signals to deliver.
type SignalPlan struct {
	Order    []string // ids in delivery order
	Withheld []string // expected participants that stay silent (2 s timeout follows)
	Extra    []string // signals from seated players that are not expected
}

// PlanSignals draws a plan: by default everybody expected signals in a drawn
// order; withholdPct is the chance that one expected signal is withheld.
func (s *Sim) PlanSignals(withholdPct int) SignalPlan {
	var plan SignalPlan
	if s.GateArmed == nil {
		return plan
	}
	ids := make([]string, 0, len(s.GateArmed.Participants))
	for id := range s.GateArmed.Participants {
		ids = append(ids, id)
	}
	sort.Strings(ids)
	perm := choose.Perm(s.Ch, "sig.order", len(ids))
	for _, i := range perm {
		plan.Order = append(plan.Order, ids[i])
	}
	if len(plan.Order) > 0 && choose.Chance(s.Ch, "sig.withhold", withholdPct) {
		k := s.Ch.Int("sig.withhold.who", 0, len(plan.Order)-1)
		plan.Withheld = append(plan.Withheld, plan.Order[k])
		plan.Order = append(plan.Order[:k], plan.Order[k+1:]...)
	}
	return plan
}

// Deliver sends the planned signals sequentially from the test goroutine.
func (s *Sim) Deliver(plan SignalPlan) {
	for _, id := range plan.Order {
		err := s.API.PlayerSettlementFinish(id)
		s.Ch.Note("SettlementFinish(%s)=%v", id, err)
	}
	for _, id := range plan.Extra {
		err := s.API.PlayerSettlementFinish(id)
		s.Ch.Note("SettlementFinish.extra(%s)=%v", id, err)
	}
}

// OpenWait is how long the driver waits for a hand to open after the signals.
func (s *Sim) openWait(plan SignalPlan) time.Duration {
	if len(plan.Withheld) > 0 {
		return 2*time.Second + s.StepWait
	}
	return s.StepWait
}

// PlayHand delivers the signals for the armed gate, waits for the hand to open
// and drives it to settlement and the post-settlement fence.
func (s *Sim) PlayHand(plan SignalPlan) *Hand {
	h := &Hand{N: len(s.Hands) + 1, Rounds: map[string]bool{}, Temper: -1}
	h.Before = s.Now()
	h.Withheld = len(plan.Withheld) > 0
	s.Cur = h
	s.Hands = append(s.Hands, h)
	h.BECallLo = s.BE.NumCalls()
	if !s.Cfg.NativeDeck {
		s.planDeck()
	}
	s.Deliver(plan)
	s.GateArmed = nil
	// wait for the opened snapshot; meanwhile watch the seat manager: a refused
	// init/rotation means the engine entered its 3 s x 10 retry loop (holding its lock)
	smLo := s.SM.NumCalls()
	deadline := time.Now().Add(s.openWait(plan) + s.OpenWaitExtra)
	extended := false
	var ev *Event
	for ev == nil {
		if !time.Now().Before(deadline) {
			if extended || !starved() {
				break
			}
			// oversubscribed machine: give the gate's 2 s timer and the open four more bounds
			extended = true
			deadline = time.Now().Add(4 * (s.openWait(plan) + s.OpenWaitExtra))
			s.Label("wait_extended_machine_starved")
		}
		ev = s.waitForD(50*time.Millisecond, func(ev *Event) bool {
			if ev.Kind == "error" {
				return true
			}
			return ev.Kind == "table" && ev.Table != nil && ev.Table.State.Status == pokertable.TableStateStatus_TableGameOpened && ev.Table.State.GameState == nil
		})
		if ev != nil && ev.Kind == "error" {
			h.Outcome = "error"
			s.Stall = "engine error: " + ev.Name
			return h
		}
		if ev == nil {
			for _, c := range s.SM.Calls()[smLo:] {
				if (c.Op == "RotatePositions" || c.Op == "InitPositions") && c.Err != "" {
					h.Outcome = "open-refused"
					s.Stall = "open refused by seat manager: " + c.Op + ": " + c.Err
					return h
				}
			}
		}
	}
	if ev == nil {
		h.Outcome = "stall"
		s.Stall = "hand did not open"
		return h
	}
	h.Opened = ev.Table
	h.GameCount = ev.Table.State.GameCount
	h.M = GameIDs(ev.Table)
	s.Ch.Note("== hand %d opened: count=%d D=%d SB=%d BB=%d M=[%s]", h.N, h.GameCount, ev.Table.State.CurrentDealerSeat, ev.Table.State.CurrentSBSeat, ev.Table.State.CurrentBBSeat, joinStr(h.M))
	if s.Hooks.Opened != nil {
		s.Hooks.Opened(s, h)
	}
	return s.DriveHand(h)
}

// DriveHand plays an already opened hand to the fence.
func (s *Sim) DriveHand(h *Hand) *Hand {
	for steps := 0; steps < 5000; steps++ {
		ev := s.nextD(s.StepWait)
		if ev == nil {
			h.Outcome = "stall"
			s.Stall = fmt.Sprintf("no event for %v during hand %d (last status %s)", s.StepWait, h.N, s.LastStatus)
			return h
		}
		switch {
		case ev.Kind == "error":
			h.Outcome = "error"
			s.Stall = "engine error: " + ev.Name
			return h
		case ev.Kind == "state" && ev.Name == pokertable.TableStateEvent_GameUpdated:
			h.Snapshots++
			gs := ev.Table.State.GameState
			if gs == nil {
				continue
			}
			if h.First == nil {
				h.First = ev.Table
			}
			if gs.Status.Round != "" {
				h.Rounds[gs.Status.Round] = true
			}
			d := &Decision{Ev: ev, Table: ev.Table, GS: gs, M: GameIDs(ev.Table), Round: gs.Status.Round, Cur: gs.Status.CurrentPlayer, Serial: ev.Table.UpdateSerial}
			switch gs.Status.CurrentEvent {
			case "ReadyRequested":
				d.Kind = "ready"
			case "AnteRequested":
				d.Kind = "ante"
			case "BlindsRequested":
				d.Kind = "blinds"
			case "RoundStarted":
				d.Kind = "turn"
			default:
				continue
			}
			// the same decision point may be delivered twice (a hook that re-published the
			// engine's current snapshot raced with the engine's own notification)
			key := fmt.Sprintf("%s/%d/%d/%s/%d", gs.GameID, gs.UpdatedAt, gs.Status.CurrentPlayer, gs.Status.CurrentEvent, len(gs.Players[0].AllowedActions))
			if key == s.lastDecisionKey {
				continue
			}
			s.lastDecisionKey = key
			if s.Resync {
				// after a concurrent burst several snapshots are queued: only the one the
				// engine is actually waiting at is a decision point
				if ev.Table.UpdateSerial < s.TE.GetTable().UpdateSerial {
					continue
				}
				s.Resync = false
			}
			h.Decisions++
			if !s.handleDecision(h, d) {
				if h.Outcome == "" {
					h.Outcome = "stall"
				}
				return h
			}
		case ev.Kind == "state" && ev.Name == pokertable.TableStateEvent_GameSettled:
			h.SettledT = ev.Table
			h.SettledAt = ev.At
			if hs := s.BE.CurrentHand(); hs != nil {
				h.BEHand = hs
			}
			s.Ch.Note("== hand %d settled", h.N)
			if s.Hooks.Settled != nil {
				s.Hooks.Settled(s, h)
			}
			return s.awaitFence(h)
		}
	}
	h.Outcome = "stall"
	s.Stall = "hand exceeded 5000 steps"
	return h
}

// awaitFence waits for what the engine does by itself after settlement: arm the
// gate, pause, or (closed / released / defect) nothing.
func (s *Sim) awaitFence(h *Hand) *Hand {
	wait := s.StepWait
	if s.FenceWait > 0 {
		wait = s.FenceWait
	}
	if s.Cfg.Interval > 0 {
		wait += time.Duration(s.Cfg.Interval) * time.Second
	}
	ev := s.waitForD(wait, func(ev *Event) bool {
		if ev.Kind == "gate" || ev.Kind == "autoend" {
			return true
		}
		if ev.Kind == "state" && ev.Name == pokertable.TableStateEvent_StatusUpdated && ev.Table != nil {
			st := ev.Table.State.Status
			return st == pokertable.TableStateStatus_TablePausing || st == pokertable.TableStateStatus_TableClosed
		}
		return false
	})
	switch {
	case ev == nil:
		h.Outcome = "none"
	case ev.Kind == "gate":
		h.Outcome = "gate"
		h.NextGate = ev.Gate
	case ev.Kind == "autoend":
		h.Outcome = "autoend"
	default:
		if ev.Table.State.Status == pokertable.TableStateStatus_TableClosed {
			h.Outcome = "closed"
		} else {
			h.Outcome = "paused"
		}
	}
	h.After = s.Now()
	s.Ch.Note("== hand %d fence: %s", h.N, h.Outcome)
	if s.Hooks.Fence != nil {
		s.Hooks.Fence(s, h)
	}
	return h
}

func (s *Sim) handleDecision(h *Hand, d *Decision) bool {
	gs := d.GS
	// The first request of a hand can be published while startGame (holding the engine
	// lock) has not returned yet: wait until the engine is really waiting for input.
	if h.Decisions <= 1 {
		for i := 0; i < 4000 && !pokertable.VerifTryLock(s.TE); i++ {
			time.Sleep(250 * time.Microsecond)
		}
	}
	switch d.Kind {
	case "ready", "ante", "blinds":
		want := "ready"
		if d.Kind != "ready" {
			want = "pay"
		}
		for _, p := range gs.Players {
			for _, a := range p.AllowedActions {
				if a == want && p.Idx < len(d.M) {
					d.Asked = append(d.Asked, d.M[p.Idx])
				}
			}
		}
		if s.Hooks.AtDecision != nil {
			s.Hooks.AtDecision(s, d)
		}
		if s.Stall != "" {
			return false
		}
		for deadline := time.Now().Add(s.StepWait); len(d.Asked) == 0 && time.Now().Before(deadline); {
			// a snapshot taken by the harness itself (PushSnapshot) can catch the hand between
			// the request being queued and the table-side handler marking who is asked; under
			// load that gap can last many milliseconds, so this waits as long as any other step
			time.Sleep(500 * time.Microsecond)
			fresh := s.Now()
			fgs := fresh.State.GameState
			if fgs == nil || fgs.GameID != gs.GameID || fgs.Status.CurrentEvent != gs.Status.CurrentEvent {
				// the hand has moved on by itself: this snapshot is obsolete, later ones are queued
				s.Label("obsolete_group_request_skipped")
				return true
			}
			for _, p := range fgs.Players {
				for _, a := range p.AllowedActions {
					if a == want && p.Idx < len(d.M) {
						d.Asked = append(d.Asked, d.M[p.Idx])
					}
				}
			}
			if len(d.Asked) > 0 {
				d.Table, d.GS, gs = fresh, fgs, fgs
			}
		}
		if len(d.Asked) == 0 {
			// nobody asked: the engine waits for nobody; it will only move by timeout
			pj, _ := json.Marshal(gs.Players)
			s.Stall = "group request with nobody asked (" + d.Kind + "): blinds " + fmt.Sprintf("%+v", gs.Meta.Blind) + " players " + string(pj)
			return false
		}
		perm := choose.Perm(s.Ch, "resp.order", len(d.Asked))
		for k, i := range perm {
			pid := d.Asked[i]
			gi := indexOf(d.M, pid)
			if k == len(perm)-1 && s.Hooks.BeforeLast != nil {
				s.Hooks.BeforeLast(s, d, pid)
				if s.Stall != "" {
					return false
				}
			}
			var arg int64
			kind := "ready"
			if d.Kind == "ante" {
				kind, arg = "pay", gs.Meta.Ante
			} else if d.Kind == "blinds" {
				kind = "pay"
				arg = blindOf(gs, gi)
			}
			a := s.Submit(pid, gi, kind, arg, d)
			h.Actions = append(h.Actions, a)
			if s.Hooks.AfterAct != nil {
				s.Hooks.AfterAct(s, a)
			}
			if a.Err != nil {
				s.Stall = fmt.Sprintf("driver %s by %s refused: %v", kind, pid, a.Err)
				return false
			}
		}
		return true
	case "turn":
		p := gs.GetPlayer(d.Cur)
		if p == nil || d.Cur >= len(d.M) {
			s.Stall = "turn snapshot without current player"
			return false
		}
		pid := d.M[d.Cur]
		d.Asked = []string{pid}
		if len(p.AllowedActions) == 0 {
			s.Stall = "turn snapshot: current player has no allowed actions"
			return false
		}
		if s.Hooks.AtDecision != nil {
			s.Hooks.AtDecision(s, d)
		}
		if s.Stall != "" {
			return false
		}
		if s.SkipAct {
			// a hook already moved the hand on (concurrent burst)
			s.SkipAct = false
			return true
		}
		if h.Temper < 0 {
			if s.Hooks.Temper != nil {
				h.Temper = s.Hooks.Temper(s, h)
			}
			if h.Temper < 0 {
				h.Temper = choose.Weighted(s.Ch, "temper", []int{3, 4, 3, 3, 2, 3})
			}
		}
		kind, arg := s.chooseAction(h, gs, p)
		h.Turns++
		for attempt := 0; ; attempt++ {
			a := s.Submit(pid, d.Cur, kind, arg, d)
			h.Actions = append(h.Actions, a)
			s.Ch.Note("  %s %s %s(%d) -> %v", d.Round, pid, kind, arg, a.Err)
			if s.Hooks.AfterAct != nil {
				s.Hooks.AfterAct(s, a)
			}
			if a.Err == nil {
				return true
			}
			if errors.Is(a.Err, backend.ErrInjected) && attempt < 8 {
				continue // injected failure: the same action is submitted again
			}
			s.Stall = fmt.Sprintf("driver %s(%d) by %s refused: %v (allowed %v)", kind, arg, pid, a.Err, p.AllowedActions)
			return false
		}
	}
	return true
}

func indexOf(ss []string, x string) int {
	for i, s := range ss {
		if s == x {
			return i
		}
	}
	return -1
}

func has(ss []string, x string) bool { return indexOf(ss, x) >= 0 }

func blindOf(gs *pokerface.GameState, gi int) int64 {
	switch {
	case gs.Meta.Blind.BB > 0 && gs.HasPosition(gi, "bb"):
		return gs.Meta.Blind.BB
	case gs.Meta.Blind.SB > 0 && gs.HasPosition(gi, "sb"):
		return gs.Meta.Blind.SB
	default:
		return gs.Meta.Blind.Dealer
	}
}

// chooseAction draws a legal action for the current player according to the
// hand's temperament.
func (s *Sim) chooseAction(h *Hand, gs *pokerface.GameState, p *pokerface.PlayerState) (string, int64) {
	al := p.AllowedActions
	if has(al, "pass") {
		return "pass", 0
	}
	// weights per temperament: fold check call bet raise allin
	var w [6]int
	switch h.Temper {
	case TemperPassive:
		w = [6]int{1, 12, 12, 1, 1, 0}
	case TemperMixed:
		w = [6]int{3, 6, 6, 3, 3, 1}
	case TemperAggressive:
		w = [6]int{2, 2, 4, 6, 6, 2}
	case TemperShove:
		w = [6]int{2, 1, 3, 1, 1, 10}
	case TemperFoldOut:
		w = [6]int{12, 3, 1, 2, 2, 0}
	case TemperRaiseWar:
		w = [6]int{1, 1, 3, 6, 10, 1}
	}
	names := []string{"fold", "check", "call", "bet", "raise", "allin"}
	weights := make([]int, 6)
	any := false
	for i, n := range names {
		if has(al, n) {
			weights[i] = w[i]
			if w[i] > 0 {
				any = true
			}
		}
	}
	if !any {
		for i, n := range names {
			if has(al, n) {
				weights[i] = 1
			}
		}
	}
	// never fold when checking is free unless fold-out temperament wants walk-overs
	k := choose.Weighted(s.Ch, "act", weights)
	kind := names[k]
	switch kind {
	case "bet":
		lo, hi := gs.Status.MiniBet, p.InitialStackSize
		if hi < lo {
			hi = lo
		}
		return "bet", s.drawAmount("bet.amt", lo, hi)
	case "raise":
		lo := gs.Status.CurrentWager + gs.Status.PreviousRaiseSize
		hi := p.InitialStackSize
		if hi < lo {
			hi = lo
		}
		return "raise", s.drawAmount("raise.lvl", lo, hi)
	}
	return kind, 0
}

// drawAmount picks lo, hi, or something in between (small multiples first).
func (s *Sim) drawAmount(label string, lo, hi int64) int64 {
	if hi <= lo {
		return lo
	}
	switch s.Ch.Int(label+".mode", 0, 3) {
	case 0:
		return lo
	case 1:
		v := lo + int64(s.Ch.Int(label+".small", 0, 20))
		if v > hi {
			v = hi
		}
		return v
	case 2:
		span := hi - lo
		if span > 1<<30 {
			span = 1 << 30
		}
		return lo + int64(s.Ch.Int(label+".any", 0, int(span)))
	default:
		return hi
	}
}

// ---------------------------------------------------------------------------
// decks

var suits = []string{"S", "H", "D", "C"}
var points = []string{"2", "3", "4", "5", "6", "7", "8", "9", "T", "J", "Q", "K", "A"}

func fullDeck(short bool) []string {
	d := []string{}
	lo := 0
	if short {
		lo = 4
	}
	for _, su := range suits {
		for i := lo; i < 13; i++ {
			d = append(d, su+points[i])
		}
	}
	return d
}

// planDeck draws the deck parameters for the next hand on the test goroutine
// (the backend's CreateGame runs on an engine goroutine and must not draw).
func (s *Sim) planDeck() {
	s.deckMode = choose.Weighted(s.Ch, "deck.mode", []int{5, 3, 2})
	s.deckSeed = s.Ch.Int("deck.seed", 0, 1<<20)
	switch s.deckMode {
	case 1:
		s.Label("deck_board_plays")
	case 2:
		s.Label("deck_pairs_ladder")
	default:
		s.Label("deck_random")
	}
}

// buildDeck returns the deck for a hand with n players from the planned
// parameters: a pseudo-random permutation, a deck whose board plays for
// everybody (split pots), or one with a strict ladder of pocket pairs
// (side-pot cascades with a dominant hand). Pure function of (mode, seed, n).
func (s *Sim) buildDeck(n int, short bool) []string {
	if s.Hooks.Deck != nil {
		if d := s.Hooks.Deck(s, n, short); d != nil {
			return d
		}
	}
	deck := fullDeck(short)
	r := choose.NewSplitMix(uint64(s.deckSeed))
	for i := len(deck) - 1; i > 0; i-- {
		j := r.Intn(i + 1)
		deck[i], deck[j] = deck[j], deck[i]
	}
	switch s.deckMode {
	case 1:
		// board = royal flush in spades: everybody still in at showdown ties
		return placeBoard(deck, n, []string{"SA", "SK", "SQ", "SJ", "ST"})
	case 2:
		return placeLadder(deck, n, short)
	}
	return deck
}

// placeBoard rearranges deck so that the five board cards are the given ones.
func placeBoard(deck []string, n int, board []string) []string {
	rest := []string{}
	for _, c := range deck {
		if !has(board, c) {
			rest = append(rest, c)
		}
	}
	out := make([]string, 0, len(deck))
	hole := 2 * n
	out = append(out, rest[:hole]...)
	rest = rest[hole:]
	// burn, flop x3, burn, turn, burn, river
	out = append(out, rest[0], board[0], board[1], board[2], rest[1], board[3], rest[2], board[4])
	out = append(out, rest[3:]...)
	return out
}

func placeLadder(deck []string, n int, short bool) []string {
	// board: 7 8 9 J Q of mixed suits without flush/straight help for pocket pairs A,K,T,6(short: 6 exists)
	board := []string{"D7", "C8", "H9", "SJ", "DQ"}
	pairs := [][]string{{"SA", "HA"}, {"SK", "HK"}, {"ST", "HT"}, {"S6", "H6"}}
	used := map[string]bool{}
	for _, c := range board {
		used[c] = true
	}
	holes := []string{}
	for i := 0; i < n && i < len(pairs); i++ {
		holes = append(holes, pairs[i]...)
		used[pairs[i][0]], used[pairs[i][1]] = true, true
	}
	rest := []string{}
	for _, c := range deck {
		if !used[c] {
			rest = append(rest, c)
		}
	}
	for len(holes) < 2*n {
		holes = append(holes, rest[0])
		rest = rest[1:]
	}
	out := append([]string{}, holes...)
	out = append(out, rest[0], board[0], board[1], board[2], rest[1], board[3], rest[2], board[4])
	out = append(out, rest[3:]...)
	return out
}
