// Package sim drives one real pokertable.TableEngine from the test goroutine.
// Engine callbacks only enqueue events; every decision is taken here, through a
// Chooser, at points where the engine is blocked on external input.
package sim

import (
	"encoding/json"
	"fmt"
	"sort"
	"strings"
	"sync"
	"sync/atomic"
	"time"

	"github.com/weedbox/pokerface"
	"github.com/weedbox/pokertable"
	"github.com/weedbox/pokertable/seat_manager"

	"verif/harness/backend"
	"verif/harness/choose"
)

// Event is one thing the engine (or a decorator) told the outside world.
type Event struct {
	Seq    int
	Kind   string // table | state | error | action | pstate | reserved | firstgame | autoend | gate
	Name   string // state event name / error text
	Table  *pokertable.Table
	Raw    []byte // JSON of the table at callback time
	Action *pokertable.TablePlayerGameAction
	Err    error
	Gate   *GateSetup
	PState *pokertable.TablePlayerState
	At     time.Time
}

type GateSetup struct {
	GameCount    int
	Participants map[string]int
}

type queue struct {
	mu   sync.Mutex
	cond *sync.Cond
	evs  []*Event
	head int
	seq  int
}

func newQueue() *queue {
	q := &queue{}
	q.cond = sync.NewCond(&q.mu)
	return q
}

func (q *queue) push(e *Event) {
	q.mu.Lock()
	q.seq++
	e.Seq = q.seq
	e.At = time.Now()
	q.evs = append(q.evs, e)
	q.mu.Unlock()
	q.cond.Broadcast()
}

// pop returns the next event or nil after timeout.
func (q *queue) pop(timeout time.Duration) *Event {
	deadline := time.Now().Add(timeout)
	q.mu.Lock()
	defer q.mu.Unlock()
	for q.head >= len(q.evs) {
		remain := time.Until(deadline)
		if remain <= 0 {
			return nil
		}
		t := time.AfterFunc(remain, func() { q.cond.Broadcast() })
		q.cond.Wait()
		t.Stop()
	}
	e := q.evs[q.head]
	q.evs[q.head] = nil
	q.head++
	return e
}

func (q *queue) pending() int {
	q.mu.Lock()
	defer q.mu.Unlock()
	return len(q.evs) - q.head
}

func (q *queue) total() int {
	q.mu.Lock()
	defer q.mu.Unlock()
	return q.seq
}

// ---------------------------------------------------------------------------

type PlayerSpec struct {
	ID    string
	Seat  int // -1 = random seat
	Chips int64
	Join  bool // seated-in after reserve
}

type Config struct {
	Seats       int
	Rule        string
	Mode        string
	MinPlayers  int
	Blind       pokertable.TableBlindState
	ActionTime  int
	Interval    int
	MaxDuration int // seconds the table auto-opens hands for (CT / cash); 0 = practically unlimited
	Players     []PlayerSpec
	ViaCreate   bool // initial players passed in CreateTable.JoinPlayers
	ViaManager  bool // route all calls through a Manager (C17 facade)
	WrapSM      bool // install recording seat-manager decorator
	NativeDeck  bool // do not control the deck
}

func (c Config) String() string {
	ps := []string{}
	for _, p := range c.Players {
		j := ""
		if !p.Join {
			j = "(out)"
		}
		ps = append(ps, fmt.Sprintf("%s@%d:%d%s", p.ID, p.Seat, p.Chips, j))
	}
	return fmt.Sprintf("seats=%d rule=%s mode=%s min=%d blind={L%d a%d d%d sb%d bb%d} at=%d iv=%d players=[%s]", c.Seats, c.Rule, c.Mode, c.MinPlayers,
		c.Blind.Level, c.Blind.Ante, c.Blind.Dealer, c.Blind.SB, c.Blind.BB, c.ActionTime, c.Interval, strings.Join(ps, " "))
}

// API is the operation surface of a table, either the engine itself or a
// Manager addressing it by id.
type API interface {
	PauseTable() error
	CloseTable() error
	ReleaseTable() error
	StartTableGame() error
	UpdateBlind(level int, ante, dealer, sb, bb int64) error
	SetUpTableGame(gameCount int, participants map[string]int) error
	UpdateTablePlayers(join []pokertable.JoinPlayer, leave []string) (map[string]int, error)
	PlayerReserve(jp pokertable.JoinPlayer) error
	PlayerJoin(id string) error
	PlayerSettlementFinish(id string) error
	PlayerRedeemChips(jp pokertable.JoinPlayer) error
	PlayersLeave(ids []string) error
	PlayerExtendActionDeadline(id string, d int) (int64, error)
	PlayerReady(id string) error
	PlayerPay(id string, chips int64) error
	PlayerBet(id string, chips int64) error
	PlayerRaise(id string, level int64) error
	PlayerCall(id string) error
	PlayerAllin(id string) error
	PlayerCheck(id string) error
	PlayerFold(id string) error
	PlayerPass(id string) error
}

type engineAPI struct{ te pokertable.TableEngine }

func (a engineAPI) PauseTable() error     { return a.te.PauseTable() }
func (a engineAPI) CloseTable() error     { return a.te.CloseTable() }
func (a engineAPI) ReleaseTable() error   { return a.te.ReleaseTable() }
func (a engineAPI) StartTableGame() error { return a.te.StartTableGame() }
func (a engineAPI) UpdateBlind(level int, ante, dealer, sb, bb int64) error {
	a.te.UpdateBlind(level, ante, dealer, sb, bb)
	return nil
}
func (a engineAPI) SetUpTableGame(gc int, p map[string]int) error {
	a.te.SetUpTableGame(gc, p)
	return nil
}
func (a engineAPI) UpdateTablePlayers(j []pokertable.JoinPlayer, l []string) (map[string]int, error) {
	return a.te.UpdateTablePlayers(j, l)
}
func (a engineAPI) PlayerReserve(jp pokertable.JoinPlayer) error { return a.te.PlayerReserve(jp) }
func (a engineAPI) PlayerJoin(id string) error                   { return a.te.PlayerJoin(id) }
func (a engineAPI) PlayerSettlementFinish(id string) error       { return a.te.PlayerSettlementFinish(id) }
func (a engineAPI) PlayerRedeemChips(jp pokertable.JoinPlayer) error {
	return a.te.PlayerRedeemChips(jp)
}
func (a engineAPI) PlayersLeave(ids []string) error { return a.te.PlayersLeave(ids) }
func (a engineAPI) PlayerExtendActionDeadline(id string, d int) (int64, error) {
	return a.te.PlayerExtendActionDeadline(id, d)
}
func (a engineAPI) PlayerReady(id string) error          { return a.te.PlayerReady(id) }
func (a engineAPI) PlayerPay(id string, c int64) error   { return a.te.PlayerPay(id, c) }
func (a engineAPI) PlayerBet(id string, c int64) error   { return a.te.PlayerBet(id, c) }
func (a engineAPI) PlayerRaise(id string, c int64) error { return a.te.PlayerRaise(id, c) }
func (a engineAPI) PlayerCall(id string) error           { return a.te.PlayerCall(id) }
func (a engineAPI) PlayerAllin(id string) error          { return a.te.PlayerAllin(id) }
func (a engineAPI) PlayerCheck(id string) error          { return a.te.PlayerCheck(id) }
func (a engineAPI) PlayerFold(id string) error           { return a.te.PlayerFold(id) }
func (a engineAPI) PlayerPass(id string) error           { return a.te.PlayerPass(id) }

type managerAPI struct {
	m  pokertable.Manager
	id string
}

func (a managerAPI) PauseTable() error     { return a.m.PauseTable(a.id) }
func (a managerAPI) CloseTable() error     { return a.m.CloseTable(a.id) }
func (a managerAPI) ReleaseTable() error   { return a.m.ReleaseTable(a.id) }
func (a managerAPI) StartTableGame() error { return a.m.StartTableGame(a.id) }
func (a managerAPI) UpdateBlind(level int, ante, dealer, sb, bb int64) error {
	return a.m.UpdateBlind(a.id, level, ante, dealer, sb, bb)
}
func (a managerAPI) SetUpTableGame(gc int, p map[string]int) error {
	return a.m.SetUpTableGame(a.id, gc, p)
}
func (a managerAPI) UpdateTablePlayers(j []pokertable.JoinPlayer, l []string) (map[string]int, error) {
	return a.m.UpdateTablePlayers(a.id, j, l)
}
func (a managerAPI) PlayerReserve(jp pokertable.JoinPlayer) error { return a.m.PlayerReserve(a.id, jp) }
func (a managerAPI) PlayerJoin(id string) error                   { return a.m.PlayerJoin(a.id, id) }
func (a managerAPI) PlayerSettlementFinish(id string) error {
	return a.m.PlayerSettlementFinish(a.id, id)
}
func (a managerAPI) PlayerRedeemChips(jp pokertable.JoinPlayer) error {
	return a.m.PlayerRedeemChips(a.id, jp)
}
func (a managerAPI) PlayersLeave(ids []string) error { return a.m.PlayersLeave(a.id, ids) }
func (a managerAPI) PlayerExtendActionDeadline(id string, d int) (int64, error) {
	return a.m.PlayerExtendActionDeadline(a.id, id, d)
}
func (a managerAPI) PlayerReady(id string) error          { return a.m.PlayerReady(a.id, id) }
func (a managerAPI) PlayerPay(id string, c int64) error   { return a.m.PlayerPay(a.id, id, c) }
func (a managerAPI) PlayerBet(id string, c int64) error   { return a.m.PlayerBet(a.id, id, c) }
func (a managerAPI) PlayerRaise(id string, c int64) error { return a.m.PlayerRaise(a.id, id, c) }
func (a managerAPI) PlayerCall(id string) error           { return a.m.PlayerCall(a.id, id) }
func (a managerAPI) PlayerAllin(id string) error          { return a.m.PlayerAllin(a.id, id) }
func (a managerAPI) PlayerCheck(id string) error          { return a.m.PlayerCheck(a.id, id) }
func (a managerAPI) PlayerFold(id string) error           { return a.m.PlayerFold(a.id, id) }
func (a managerAPI) PlayerPass(id string) error           { return a.m.PlayerPass(a.id, id) }

// ---------------------------------------------------------------------------

// Hooks let a property attach monitors and extra operations.
type Hooks struct {
	Event      func(s *Sim, ev *Event)                // every event popped from the queue, in order
	Opened     func(s *Sim, h *Hand)                  // opened snapshot received
	AtDecision func(s *Sim, d *Decision)              // before the driver acts at a decision point
	BeforeLast func(s *Sim, d *Decision, last string) // group request: all but one response submitted
	AfterAct   func(s *Sim, a *ActionRec)             // after every driver-submitted game action
	Settled    func(s *Sim, h *Hand)                  // settled snapshot received (engine continues synchronously)
	Fence      func(s *Sim, h *Hand)                  // after the post-settlement fence (gate armed / paused / nothing)
	Deck       func(s *Sim, n int, short bool) []string
	Temper     func(s *Sim, h *Hand) int // override temperament (-1 = draw)
}

type Sim struct {
	Ch    *choose.Recorder
	Cfg   Config
	TE    pokertable.TableEngine
	Mgr   pokertable.Manager
	API   API
	BE    *backend.Wrapper
	Gate  *gateDeco
	SM    *smDeco
	Hooks Hooks
	OnOp  func(s *Sim, o *OpRec)
	// InCallback runs synchronously inside OnTableStateUpdated on the engine's
	// goroutine. It must not draw; whatever it does is planned beforehand.
	InCallback func(s *Sim, name string, t *pokertable.Table)
	// InCallbackLive additionally receives the engine's live table (as real callers do).
	InCallbackLive func(s *Sim, name string, live, clone *pokertable.Table)
	opSeq          int64         // odd while the harness itself is inside a table operation (see OpSeq)
	CallGuard      time.Duration // > 0: game actions run under a watchdog (Do returns ErrHung, Hung says which call)
	Hung           string
	OpenWaitExtra  time.Duration // added to the wait for a hand to open (retry scenarios)
	FenceWait      time.Duration // overrides the wait for the post-settlement fence when > 0

	q        *queue
	finished int32
	TableID  string

	Last            *pokertable.Table // latest snapshot seen (clone)
	LastStatus      pokertable.TableStateStatus
	GateArmed       *GateSetup // set when a gate event was consumed, cleared on open
	Hands           []*Hand
	Cur             *Hand
	Errors          []error // OnTableErrorUpdated
	FirstGame       bool    // OnReadyOpenFirstTableGame seen and not yet handled
	Stall           string  // why the driver gave up ("" = fine)
	StepWait        time.Duration
	Trace           []string // abstract trace for fingerprints
	LabelSet        map[string]bool
	CreateErr       error
	lastDecisionKey string
	backlog         []*Event // consumed by hooks, still owed to the driver
	SkipAct         bool     // the current turn was already played by a hook
	Resync          bool     // skip queued decision snapshots that are older than the engine's current state
	deckMode        int
	deckSeed        int
}

func (s *Sim) Label(l string) { s.LabelSet[l] = true }
func (s *Sim) Labels() []string {
	out := make([]string, 0, len(s.LabelSet))
	for l := range s.LabelSet {
		out = append(out, l)
	}
	sort.Strings(out)
	return out
}
func (s *Sim) T(format string, a ...interface{}) {
	if len(s.Trace) < 2000 {
		s.Trace = append(s.Trace, fmt.Sprintf(format, a...))
	}
}

func cloneTable(t *pokertable.Table) (*pokertable.Table, []byte) {
	b, err := json.Marshal(t)
	if err != nil {
		return nil, nil
	}
	var c pokertable.Table
	if err := json.Unmarshal(b, &c); err != nil {
		return nil, b
	}
	return &c, b
}

// New creates the engine and the table. Initial players are seated according
// to cfg (through CreateTable or PlayerReserve) and joined when spec.Join.
func maxDuration(cfg Config) int {
	if cfg.MaxDuration > 0 {
		return cfg.MaxDuration
	}
	return 100000000
}

func New(ch *choose.Recorder, cfg Config, hooks Hooks) *Sim {
	s := &Sim{Ch: ch, Cfg: cfg, Hooks: hooks, q: newQueue(), StepWait: 6 * time.Second, LabelSet: map[string]bool{}}
	s.BE = backend.New()
	if !cfg.NativeDeck {
		s.BE.DeckFn = func(opts *pokerface.GameOptions, gs *pokerface.GameState) []string {
			return s.buildDeck(len(opts.Players), cfg.Rule == pokertable.CompetitionRule_ShortDeck)
		}
	}
	alive := func() bool { return atomic.LoadInt32(&s.finished) == 0 }
	cb := pokertable.NewTableEngineCallbacks()
	cb.OnTableUpdated = func(t *pokertable.Table) {
		if !alive() {
			return
		}
		c, raw := cloneTable(t)
		if f := s.InCallbackLive; f != nil {
			f(s, "table", t, c)
		}
		s.q.push(&Event{Kind: "table", Table: c, Raw: raw})
	}
	cb.OnTableStateUpdated = func(name string, t *pokertable.Table) {
		if !alive() {
			return
		}
		c, raw := cloneTable(t)
		// fan-out hooks see the live table before the test goroutine learns about the
		// snapshot (otherwise the driver's next move races with them)
		if f := s.InCallbackLive; f != nil {
			f(s, name, t, c)
		}
		s.q.push(&Event{Kind: "state", Name: name, Table: c, Raw: raw})
		// pre-planned actions that must run inside the callback (on the engine's
		// goroutine), e.g. "close the table during the continue delay"
		if f := s.InCallback; f != nil {
			f(s, name, c)
		}
	}
	cb.OnTableErrorUpdated = func(t *pokertable.Table, err error) {
		if !alive() {
			return
		}
		c, raw := cloneTable(t)
		s.q.push(&Event{Kind: "error", Name: fmt.Sprint(err), Err: err, Table: c, Raw: raw})
	}
	cb.OnGamePlayerActionUpdated = func(a pokertable.TablePlayerGameAction) {
		if !alive() {
			return
		}
		ac := a
		ac.Positions = append([]string(nil), a.Positions...)
		s.q.push(&Event{Kind: "action", Action: &ac})
	}
	cb.OnTablePlayerStateUpdated = func(cid, tid string, ps *pokertable.TablePlayerState) {
		if !alive() {
			return
		}
		pc := *ps
		s.q.push(&Event{Kind: "pstate", PState: &pc})
	}
	cb.OnTablePlayerReserved = func(cid, tid string, ps *pokertable.TablePlayerState) {
		if !alive() {
			return
		}
		pc := *ps
		s.q.push(&Event{Kind: "reserved", PState: &pc})
	}
	cb.OnAutoGameOpenEnd = func(cid, tid string) {
		if !alive() {
			return
		}
		s.q.push(&Event{Kind: "autoend"})
	}
	cb.OnReadyOpenFirstTableGame = func(cid, tid string, gc int, ps []*pokertable.TablePlayerState) {
		if !alive() {
			return
		}
		s.q.push(&Event{Kind: "firstgame", Name: fmt.Sprint(gc)})
	}

	s.TableID = "tbl-" + fmt.Sprint(time.Now().UnixNano())
	setting := pokertable.TableSetting{
		TableID: s.TableID,
		Meta: pokertable.TableMeta{
			CompetitionID:       "comp",
			Rule:                cfg.Rule,
			Mode:                cfg.Mode,
			MaxDuration:         maxDuration(cfg),
			TableMaxSeatCount:   cfg.Seats,
			TableMinPlayerCount: cfg.MinPlayers,
			MinChipUnit:         1,
			ActionTime:          cfg.ActionTime,
		},
		Blind: cfg.Blind,
	}
	if cfg.ViaCreate {
		for _, p := range cfg.Players {
			setting.JoinPlayers = append(setting.JoinPlayers, pokertable.JoinPlayer{PlayerID: p.ID, RedeemChips: p.Chips, Seat: p.Seat})
		}
	}
	opts := &pokertable.TableEngineOptions{GameContinueInterval: cfg.Interval, OpenGameTimeout: 2}
	if cfg.ViaManager {
		s.Mgr = pokertable.NewManager()
		_, err := s.Mgr.CreateTable(opts, cb, setting)
		if err != nil {
			s.CreateErr = err
			return s
		}
		te, err := s.Mgr.GetTableEngine(s.TableID)
		if err != nil {
			s.CreateErr = err
			return s
		}
		s.TE = te
		pokertable.VerifSetGameBackend(te, s.BE)
		s.API = managerAPI{s.Mgr, s.TableID}
	} else {
		te := pokertable.NewTableEngine(opts, pokertable.WithGameBackend(s.BE))
		te.OnTableUpdated(cb.OnTableUpdated)
		te.OnTableErrorUpdated(cb.OnTableErrorUpdated)
		te.OnTableStateUpdated(cb.OnTableStateUpdated)
		te.OnTablePlayerStateUpdated(cb.OnTablePlayerStateUpdated)
		te.OnTablePlayerReserved(cb.OnTablePlayerReserved)
		te.OnGamePlayerActionUpdated(cb.OnGamePlayerActionUpdated)
		te.OnAutoGameOpenEnd(cb.OnAutoGameOpenEnd)
		te.OnReadyOpenFirstTableGame(cb.OnReadyOpenFirstTableGame)
		s.TE = te
		s.API = engineAPI{te}
		if _, err := te.CreateTable(setting); err != nil {
			s.CreateErr = err
			return s
		}
	}
	// decorators
	s.Gate = &gateDeco{inner: pokertable.VerifOpenGameManager(s.TE)}
	s.Gate.onSet = func(gc int, p map[string]int) {
		if !alive() {
			return
		}
		s.q.push(&Event{Kind: "gate", Gate: &GateSetup{GameCount: gc, Participants: p}})
	}
	pokertable.VerifSetOpenGameManager(s.TE, s.Gate)
	{
		s.SM = &smDeco{SeatManager: pokertable.VerifSeatManager(s.TE)}
		pokertable.VerifSetSeatManager(s.TE, s.SM)
	}
	s.Drain()
	if !cfg.ViaCreate {
		// fixed seats first: a random seat drawn by the engine must not collide with a later fixed one
		ordered := []PlayerSpec{}
		for _, p := range cfg.Players {
			if p.Seat >= 0 {
				ordered = append(ordered, p)
			}
		}
		for _, p := range cfg.Players {
			if p.Seat < 0 {
				ordered = append(ordered, p)
			}
		}
		for _, p := range ordered {
			if err := s.API.PlayerReserve(pokertable.JoinPlayer{PlayerID: p.ID, RedeemChips: p.Chips, Seat: p.Seat}); err != nil {
				s.CreateErr = fmt.Errorf("reserve %s: %w", p.ID, err)
				return s
			}
		}
	}
	for _, p := range cfg.Players {
		if p.Join {
			if err := s.API.PlayerJoin(p.ID); err != nil {
				s.CreateErr = fmt.Errorf("join %s: %w", p.ID, err)
				return s
			}
			s.joinFence()
		}
	}
	s.Drain()
	s.backlog = nil
	return s
}

// Finish marks the case as over: late callbacks are dropped, the gate is
// disarmed so that no hand opens on the abandoned engine.
func (s *Sim) Finish() {
	atomic.StoreInt32(&s.finished, 1)
	if s.TE != nil && s.CreateErr == nil {
		func() {
			defer func() { recover() }()
			// an empty set-up never completes: neutralises a pending gate timer
			s.TE.SetUpTableGame(-999, map[string]int{})
		}()
	}
}

// SeatManager returns the engine's seat manager (through the decorator if any).
func (s *Sim) SeatManager() seat_manager.SeatManager { return pokertable.VerifSeatManager(s.TE) }

// Now returns a clone of the engine's current table (test goroutine only, at
// quiescent points).
func (s *Sim) Now() *pokertable.Table {
	c, _ := cloneTable(s.TE.GetTable())
	return c
}

func (s *Sim) NowRaw() []byte {
	_, raw := cloneTable(s.TE.GetTable())
	return raw
}

// dispatch updates the driver's view with one event and runs the monitor hook.
func (s *Sim) dispatch(ev *Event) {
	if ev.Table != nil {
		s.Last = ev.Table
		s.LastStatus = ev.Table.State.Status
	}
	switch ev.Kind {
	case "error":
		s.Errors = append(s.Errors, ev.Err)
	case "gate":
		s.GateArmed = ev.Gate
	case "firstgame":
		s.FirstGame = true
	}
	if s.Hooks.Event != nil {
		s.Hooks.Event(s, ev)
	}
}

// Event consumption. The driver (PlayHand / DriveHand / awaitFence / set-up waits)
// reads events through nextD / waitForD. Hooks use Next / Drain / WaitFor: what
// they consume is dispatched to the monitors once and kept in a backlog, so the
// driver still finds every hand snapshot, settlement and fence in order even
// when a hook drained the queue while the engine was publishing.

func (s *Sim) popDispatch(timeout time.Duration) *Event {
	ev := s.q.pop(timeout)
	if ev != nil {
		s.dispatch(ev)
	}
	return ev
}

// Next pops and dispatches the next event on behalf of a hook (nil on timeout).
func (s *Sim) Next(timeout time.Duration) *Event {
	ev := s.popDispatch(timeout)
	if ev != nil {
		s.backlog = append(s.backlog, ev)
	}
	return ev
}

// nextD returns the next event for the driver: backlog first (already dispatched).
func (s *Sim) nextD(timeout time.Duration) *Event {
	if len(s.backlog) > 0 {
		ev := s.backlog[0]
		s.backlog = s.backlog[1:]
		return ev
	}
	return s.popDispatch(timeout)
}

// Drain dispatches everything already queued without waiting (hook side).
func (s *Sim) Drain() {
	for s.q.pending() > 0 {
		s.Next(0)
	}
}

// WaitFor dispatches events until pred holds for one (returned) or timeout (hook side).
func (s *Sim) WaitFor(timeout time.Duration, pred func(ev *Event) bool) *Event {
	return s.waitFor(timeout, pred, false)
}

func (s *Sim) waitForD(timeout time.Duration, pred func(ev *Event) bool) *Event {
	return s.waitFor(timeout, pred, true)
}

// starved reports whether this process is currently being scheduled so late that the
// driver's liveness bounds (seconds) say nothing about the engine: five 2 ms sleeps, one of
// which overshoots by more than 40 ms.
// OpSeq changes (and is odd) while the harness itself is executing a membership operation or
// a game action on the table: a callback that compares the engine's table before and after
// something it does can tell whether the harness moved the table in between.
func (s *Sim) OpSeq() int64 { return atomic.LoadInt64(&s.opSeq) }

// Starved is starved() for checks that keep their own watchdogs.
func Starved() bool { return starved() }

func starved() bool {
	for i := 0; i < 5; i++ {
		t0 := time.Now()
		time.Sleep(2 * time.Millisecond)
		if time.Since(t0) > 42*time.Millisecond {
			return true
		}
	}
	return false
}

func (s *Sim) waitFor(timeout time.Duration, pred func(ev *Event) bool, driver bool) *Event {
	deadline := time.Now().Add(timeout)
	extended := false
	for {
		remain := time.Until(deadline)
		if remain < 0 {
			remain = 0
		}
		var ev *Event
		if driver {
			ev = s.nextD(remain)
		} else {
			ev = s.Next(remain)
		}
		if ev == nil {
			// a bound of a second or more that ran out while the machine is oversubscribed is
			// extended once (four more times the bound): lateness of the harness or of Go's timers
			// must not be reported as an engine that does not move
			if driver && !extended && timeout >= time.Second && starved() {
				extended = true
				deadline = time.Now().Add(4 * timeout)
				s.Label("wait_extended_machine_starved")
				continue
			}
			return nil
		}
		if pred(ev) {
			return ev
		}
	}
}

// Quiesce waits until the engine has published everything it is going to publish
// without further input: the table carries the very hand state the game wrapper
// holds (the updater goroutine has caught up), the engine lock is free and no event
// arrived for a moment. Returns false after the timeout.
func (s *Sim) Quiesce(timeout time.Duration) bool {
	deadline := time.Now().Add(timeout)
	stable := 0
	last := -1
	for time.Now().Before(deadline) {
		caught := true
		if g := s.TE.GetGame(); g != nil {
			tgs := s.TE.GetTable().State.GameState
			if tgs != nil && tgs != g.GetGameState() {
				caught = false
			}
		}
		if caught && pokertable.VerifTryLock(s.TE) {
			cur := s.q.total()
			if cur == last {
				stable++
				if stable >= 2 {
					return true
				}
			} else {
				stable = 0
			}
			last = cur
		} else {
			stable = 0
		}
		time.Sleep(300 * time.Microsecond)
	}
	return false
}

// DropBacklog forgets what hooks consumed (used when a hook itself moved the hand
// on and hands the driver a fresh snapshot with PushSnapshot).
func (s *Sim) DropBacklog() { s.backlog = nil }

// PushSnapshot enqueues a synthetic GameUpdated event carrying the engine's current
// table (used after a hook consumed the queue, e.g. a concurrent burst, so that the
// driver finds the decision point the engine is now waiting at).
func (s *Sim) PushSnapshot() {
	c, raw := cloneTable(s.TE.GetTable())
	name := pokertable.TableStateEvent_GameUpdated
	if c.State.Status == pokertable.TableStateStatus_TableGameSettled {
		name = pokertable.TableStateEvent_GameSettled
	}
	s.q.push(&Event{Kind: "state", Name: name, Table: c, Raw: raw})
}

// EventsTotal is the number of events ever enqueued (for "nothing happened" checks).
func (s *Sim) EventsTotal() int { return s.q.total() }

// ---------------------------------------------------------------------------
// roster helpers over a snapshot

func FindPlayer(t *pokertable.Table, id string) *pokertable.TablePlayerState {
	for _, p := range t.State.PlayerStates {
		if p.PlayerID == id {
			return p
		}
	}
	return nil
}

// LivePlayers: seated-in players with chips, sorted by id.
func LivePlayers(t *pokertable.Table) []string {
	out := []string{}
	for _, p := range t.State.PlayerStates {
		if p.IsIn && p.Bankroll > 0 {
			out = append(out, p.PlayerID)
		}
	}
	sort.Strings(out)
	return out
}

func AlivePlayers(t *pokertable.Table) []string {
	out := []string{}
	for _, p := range t.State.PlayerStates {
		if p.Bankroll > 0 {
			out = append(out, p.PlayerID)
		}
	}
	sort.Strings(out)
	return out
}

func AllPlayers(t *pokertable.Table) []string {
	out := []string{}
	for _, p := range t.State.PlayerStates {
		out = append(out, p.PlayerID)
	}
	sort.Strings(out)
	return out
}

// GameIDs maps game index -> player id for a snapshot.
func GameIDs(t *pokertable.Table) []string {
	out := make([]string, 0, len(t.State.GamePlayerIndexes))
	for _, pi := range t.State.GamePlayerIndexes {
		if pi >= 0 && pi < len(t.State.PlayerStates) {
			out = append(out, t.State.PlayerStates[pi].PlayerID)
		} else {
			out = append(out, fmt.Sprintf("?%d", pi))
		}
	}
	return out
}

func joinStr(ss []string) string { return strings.Join(ss, ",") }

func fmtMap(m map[string]int) string {
	ks := make([]string, 0, len(m))
	for k := range m {
		ks = append(ks, k)
	}
	sort.Strings(ks)
	parts := []string{}
	for _, k := range ks {
		parts = append(parts, fmt.Sprintf("%s:%d", k, m[k]))
	}
	return strings.Join(parts, ",")
}
