package sim

import (
	"fmt"
	"sort"
	"sync/atomic"
	"time"

	"github.com/weedbox/pokertable"

	"verif/harness/choose"
)

// OpRec is one membership / top-up operation performed by the harness.
type OpRec struct {
	Kind   string // reserve | rebuy | join | leave | redeem | update
	IDs    []string
	Joins  []pokertable.JoinPlayer
	Seat   int
	Chips  int64
	Err    error
	Ret    map[string]int
	Before *pokertable.Table
	After  *pokertable.Table
	InHand bool   // a hand was running
	Class  string // valid | err_full | err_taken | err_range | err_dup | err_unknown | err_mixed ...
	Panic  interface{}
}

func (o *OpRec) String() string {
	return fmt.Sprintf("%s[%s] ids=%v joins=%v -> err=%v", o.Kind, o.Class, o.IDs, o.Joins, o.Err)
}

func (s *Sim) inHand() bool {
	st := s.TE.GetTable().State.Status
	return st == pokertable.TableStateStatus_TableGameOpened || st == pokertable.TableStateStatus_TableGamePlaying || st == pokertable.TableStateStatus_TableGameSettled
}

func (s *Sim) runOp(o *OpRec, f func() error) *OpRec {
	atomic.AddInt64(&s.opSeq, 1)
	defer atomic.AddInt64(&s.opSeq, 1)
	o.Before = s.Now()
	o.InHand = s.inHand()
	func() {
		defer func() {
			if r := recover(); r != nil {
				o.Panic = r
				o.Err = fmt.Errorf("panic: %v", r)
			}
		}()
		o.Err = f()
	}()
	o.After = s.Now()
	s.Ch.Note("op %s", o.String())
	if s.OnOp != nil {
		s.OnOp(s, o)
	}
	return o
}

// Reserve seats a new player or tops up (re-buy) an existing one.
func (s *Sim) Reserve(id string, seat int, chips int64, class string) *OpRec {
	kind := "reserve"
	if FindPlayer(s.TE.GetTable(), id) != nil {
		kind = "rebuy"
	}
	o := &OpRec{Kind: kind, IDs: []string{id}, Seat: seat, Chips: chips, Class: class}
	return s.runOp(o, func() error {
		return s.API.PlayerReserve(pokertable.JoinPlayer{PlayerID: id, RedeemChips: chips, Seat: seat})
	})
}

func (s *Sim) Join(id string, class string) *OpRec {
	o := &OpRec{Kind: "join", IDs: []string{id}, Class: class}
	return s.runOp(o, func() error {
		err := s.API.PlayerJoin(id)
		s.joinFence()
		return err
	})
}

// joinFence waits until the engine's auto-join ready group has processed every
// queued signal. PlayerJoin only enqueues its signal; a PlayerReserve issued
// while the group's goroutine is still validating can deadlock inside syncsaga
// (recursive RLock in ReadyGroup.validate vs. the writer in Add) with the engine
// lock held. The harness therefore never issues the two back to back.
func (s *Sim) joinFence() {
	rg := pokertable.VerifJoinReadyGroup(s.TE)
	if rg == nil {
		return
	}
	t := s.TE.GetTable()
	deadline := time.Now().Add(100 * time.Millisecond)
	for time.Now().Before(deadline) {
		states := rg.GetParticipantStates()
		pending := false
		for idx, ready := range states {
			if !ready && int(idx) < len(t.State.PlayerStates) && t.State.PlayerStates[idx].IsIn {
				pending = true
			}
		}
		if !pending {
			// The state flips before the group's goroutine has left validate(); its
			// recursive RLock deadlocks against the next queued signal's write lock.
			// There is nothing to observe for "validate returned": give it ample time.
			time.Sleep(200 * time.Microsecond)
			return
		}
		time.Sleep(50 * time.Microsecond)
	}
}

func (s *Sim) Leave(ids []string, class string) *OpRec {
	o := &OpRec{Kind: "leave", IDs: append([]string(nil), ids...), Class: class}
	return s.runOp(o, func() error { return s.API.PlayersLeave(ids) })
}

func (s *Sim) Redeem(id string, chips int64, class string) *OpRec {
	o := &OpRec{Kind: "redeem", IDs: []string{id}, Chips: chips, Class: class}
	return s.runOp(o, func() error {
		return s.API.PlayerRedeemChips(pokertable.JoinPlayer{PlayerID: id, RedeemChips: chips, Seat: -1})
	})
}

func (s *Sim) Update(joins []pokertable.JoinPlayer, leaves []string, class string) *OpRec {
	o := &OpRec{Kind: "update", IDs: append([]string(nil), leaves...), Joins: append([]pokertable.JoinPlayer(nil), joins...), Class: class}
	return s.runOp(o, func() error {
		ret, err := s.API.UpdateTablePlayers(joins, leaves)
		o.Ret = ret
		return err
	})
}

// MemOpts are weights for the random membership operation generator. Only
// operations the callers may legitimately issue are produced as "valid"; the
// invalid variants are first-class but flagged by class.
type MemOpts struct {
	NewPlayer   int // reserve a new player at a free fixed seat
	NewRandom   int // reserve a new player at a random seat
	JoinSitter  int // a sitting-out player joins
	Rebuy       int // PlayerReserve for a seated player (busted preferred)
	Addon       int // PlayerRedeemChips
	Leave       int // one or several players leave
	Invalid     int // an invalid variant of one of the above
	KeepSitting int // percent chance a new player stays sitting out
	MaxNewID    int // ids p00..p(MaxNewID-1)
	// NoLeave lists players that must not leave now (e.g. participants of a running hand).
	NoLeave map[string]bool
	// OnlyNonParticipants restricts top-ups to players not in NoLeave (used when the caller wants to avoid in-hand top-ups).
	TopupAnyone bool
	// SkipInvalid lists invalid-op kinds (0 taken,1 full,2 unknown leave,3 mixed leave,4 unknown join,5 dup batch,6 unknown redeem) to leave out.
	SkipInvalid map[int]bool
}

// nextNewID returns an id not at the table.
func (s *Sim) nextNewID(t *pokertable.Table, max int) string {
	if max <= 0 {
		max = 16
	}
	for k := 0; k < max; k++ {
		id := PlayerID(k)
		if FindPlayer(t, id) == nil {
			return id
		}
	}
	return ""
}

// RandomMembershipOp performs one drawn membership operation and returns it
// (nil if the drawn kind is not applicable right now).
func (s *Sim) RandomMembershipOp(o MemOpts) *OpRec {
	t := s.Now()
	free := FreeSeats(t)
	bb := s.Cfg.Blind.BB
	if bb == 0 {
		bb = s.Cfg.Blind.Dealer
	}
	if bb == 0 {
		bb = 2
	}
	k := choose.Weighted(s.Ch, "mem.kind", []int{o.NewPlayer, o.NewRandom, o.JoinSitter, o.Rebuy, o.Addon, o.Leave, o.Invalid})
	switch k {
	case 0, 1:
		id := s.nextNewID(t, o.MaxNewID)
		if id == "" || len(free) == 0 {
			return nil
		}
		seat := -1
		if k == 0 {
			seat = free[s.Ch.Int("mem.seat", 0, len(free)-1)]
		}
		chips := genStack(s.Ch, bb, 25)
		op := s.Reserve(id, seat, chips, "valid")
		if op.Err == nil && !choose.Chance(s.Ch, "mem.keepsitting", o.KeepSitting) {
			s.Join(id, "valid")
		}
		return op
	case 2:
		sitters := []string{}
		for _, p := range t.State.PlayerStates {
			if !p.IsIn {
				sitters = append(sitters, p.PlayerID)
			}
		}
		if len(sitters) == 0 {
			return nil
		}
		sort.Strings(sitters)
		return s.Join(sitters[s.Ch.Int("mem.sitter", 0, len(sitters)-1)], "valid")
	case 3, 4:
		cands := []string{}
		busted := []string{}
		for _, p := range t.State.PlayerStates {
			if !o.TopupAnyone && o.NoLeave[p.PlayerID] {
				continue
			}
			cands = append(cands, p.PlayerID)
			if p.Bankroll == 0 {
				busted = append(busted, p.PlayerID)
			}
		}
		if len(cands) == 0 {
			return nil
		}
		sort.Strings(cands)
		sort.Strings(busted)
		var id string
		if len(busted) > 0 && choose.Chance(s.Ch, "mem.topup.busted", 70) {
			id = busted[s.Ch.Int("mem.topup.bwho", 0, len(busted)-1)]
		} else {
			id = cands[s.Ch.Int("mem.topup.who", 0, len(cands)-1)]
		}
		chips := genStack(s.Ch, bb, 25)
		if k == 3 {
			return s.Reserve(id, -1, chips, "valid")
		}
		return s.Redeem(id, chips, "valid")
	case 5:
		cands := []string{}
		for _, p := range t.State.PlayerStates {
			if !o.NoLeave[p.PlayerID] {
				cands = append(cands, p.PlayerID)
			}
		}
		if len(cands) == 0 {
			return nil
		}
		sort.Strings(cands)
		if len(o.NoLeave) > 0 {
			// a hand is running: a departure of somebody who stands in the player list before a
			// participant shifts the participants' indexes, which the hand's own index list must
			// follow; aim at that class half of the time it is available
			lastPart, low := -1, ""
			for i, p := range t.State.PlayerStates {
				if o.NoLeave[p.PlayerID] {
					lastPart = i
				}
			}
			for i, p := range t.State.PlayerStates {
				if !o.NoLeave[p.PlayerID] && i < lastPart {
					low = p.PlayerID
					break
				}
			}
			if low != "" {
				if choose.Chance(s.Ch, "mem.leave.low", 50) {
					s.Label("inhand_leave_below_participant")
					return s.Leave([]string{low}, "valid")
				}
			}
		}
		n := 1
		if len(cands) > 1 && choose.Chance(s.Ch, "mem.leave.multi", 25) {
			n = 2
		}
		perm := choose.Perm(s.Ch, "mem.leave.who", len(cands))
		ids := []string{}
		for i := 0; i < n; i++ {
			ids = append(ids, cands[perm[i]])
		}
		if choose.Chance(s.Ch, "mem.leave.repeat", 12) {
			// a client that names a leaver twice (double click, merged lists): the table accepts
			// such a list; it must still remove exactly the players it names
			ids = append(ids, ids[0])
			s.Label("leave_list_names_a_player_twice")
		}
		if len(o.NoLeave) > 0 {
			for _, id := range ids {
				for i, p := range t.State.PlayerStates {
					if p.PlayerID == id {
						for j := i + 1; j < len(t.State.PlayerStates); j++ {
							if o.NoLeave[t.State.PlayerStates[j].PlayerID] {
								s.Label("inhand_leave_below_participant")
								j = len(t.State.PlayerStates)
							}
						}
					}
				}
			}
		}
		return s.Leave(ids, "valid")
	case 6:
		return s.invalidOp(t, o)
	}
	return nil
}

// invalidOp performs one of the invalid membership operations.
func (s *Sim) invalidOp(t *pokertable.Table, o MemOpts) *OpRec {
	free := FreeSeats(t)
	all := AllPlayers(t)
	kind := s.Ch.Int("mem.inv.kind", 0, 6)
	if o.SkipInvalid[kind] {
		return nil
	}
	newID := s.nextNewID(t, 64)
	switch kind {
	case 0: // seat taken
		if len(all) == 0 || newID == "" {
			return nil
		}
		victim := FindPlayer(t, all[s.Ch.Int("mem.inv.victim", 0, len(all)-1)])
		return s.Reserve(newID, victim.Seat, 100, "err_taken")
	case 1: // table full
		if len(free) != 0 || newID == "" {
			return nil
		}
		return s.Reserve(newID, -1, 100, "err_full")
	case 2: // unknown leave
		return s.Leave([]string{"ghost"}, "err_unknown_leave")
	case 3: // mixed known + unknown leave
		cands := []string{}
		for _, id := range all {
			if !o.NoLeave[id] {
				cands = append(cands, id)
			}
		}
		if len(cands) == 0 {
			return nil
		}
		known := cands[s.Ch.Int("mem.inv.known", 0, len(cands)-1)]
		if s.Ch.Int("mem.inv.order", 0, 1) == 0 {
			return s.Leave([]string{known, "ghost"}, "err_mixed_leave")
		}
		return s.Leave([]string{"ghost", known}, "err_mixed_leave")
	case 4: // join unknown
		return s.Join("ghost", "err_unknown_join")
	case 5: // duplicate id in a batch
		if len(free) < 2 || newID == "" {
			return nil
		}
		return s.Update([]pokertable.JoinPlayer{{PlayerID: newID, RedeemChips: 100, Seat: free[0]}, {PlayerID: newID, RedeemChips: 100, Seat: free[1]}}, nil, "err_dup_batch")
	case 6: // redeem unknown
		return s.Redeem("ghost", 50, "err_unknown_redeem")
	}
	return nil
}
