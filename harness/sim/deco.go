package sim

import (
	"sync"

	"github.com/weedbox/pokertable/open_game_manager"
	"github.com/weedbox/pokertable/seat_manager"
)

// gateDeco decorates the engine's open-game manager. Setup signals the event
// queue AFTER the inner Setup returned: the only race-free fence for "the next
// hand has been set up" (nothing is published at table_game_standby).
type gateDeco struct {
	inner  open_game_manager.OpenGameManager
	mu     sync.Mutex
	setups int
	readys int
	onSet  func(gameCount int, participants map[string]int)
}

func (g *gateDeco) Ready(id string) error {
	g.mu.Lock()
	g.readys++
	g.mu.Unlock()
	return g.inner.Ready(id)
}

func (g *gateDeco) Setup(gameCount int, participants map[string]int) {
	g.inner.Setup(gameCount, participants)
	g.mu.Lock()
	g.setups++
	g.mu.Unlock()
	cp := map[string]int{}
	for k, v := range participants {
		cp[k] = v
	}
	if g.onSet != nil {
		g.onSet(gameCount, cp)
	}
}

func (g *gateDeco) GetState() open_game_manager.OpenGameState { return g.inner.GetState() }
func (g *gateDeco) PrintState()                               { g.inner.PrintState() }

// SMCall is one recorded seat-manager mutator call.
type SMCall struct {
	Op  string
	Arg string
	Err string
}

// smDeco records mutator calls on the seat manager (reads are forwarded).
type smDeco struct {
	seat_manager.SeatManager
	mu    sync.Mutex
	calls []SMCall
}

func (d *smDeco) rec(op, arg string, err error) error {
	c := SMCall{Op: op, Arg: arg}
	if err != nil {
		c.Err = err.Error()
	}
	d.mu.Lock()
	if len(d.calls) < 100000 {
		d.calls = append(d.calls, c)
	}
	d.mu.Unlock()
	return err
}

func (d *smDeco) Calls() []SMCall {
	d.mu.Lock()
	defer d.mu.Unlock()
	return append([]SMCall(nil), d.calls...)
}

func (d *smDeco) NumCalls() int {
	d.mu.Lock()
	defer d.mu.Unlock()
	return len(d.calls)
}

func (d *smDeco) RandomAssignSeats(ids []string) error {
	return d.rec("RandomAssignSeats", joinStr(ids), d.SeatManager.RandomAssignSeats(ids))
}
func (d *smDeco) AssignSeats(m map[string]int) error {
	return d.rec("AssignSeats", fmtMap(m), d.SeatManager.AssignSeats(m))
}
func (d *smDeco) RemoveSeats(ids []string) error {
	return d.rec("RemoveSeats", joinStr(ids), d.SeatManager.RemoveSeats(ids))
}
func (d *smDeco) UpdatePlayerHasChips(id string, has bool) error {
	a := id + "=0"
	if has {
		a = id + "=1"
	}
	return d.rec("UpdatePlayerHasChips", a, d.SeatManager.UpdatePlayerHasChips(id, has))
}
func (d *smDeco) JoinPlayers(ids []string) error {
	return d.rec("JoinPlayers", joinStr(ids), d.SeatManager.JoinPlayers(ids))
}
func (d *smDeco) InitPositions(r bool) error {
	return d.rec("InitPositions", "", d.SeatManager.InitPositions(r))
}
func (d *smDeco) RotatePositions() error {
	return d.rec("RotatePositions", "", d.SeatManager.RotatePositions())
}
