package sim

import (
	"fmt"

	"github.com/weedbox/pokertable"

	"verif/harness/choose"
)

// GenOpts steers configuration generation per property.
type GenOpts struct {
	MinSeats, MaxSeats int   // default 2..10
	Rules              []int // weights: default, short_deck
	MaxPlayers         int
	MinPlayersAtStart  int // at least this many seated-in players with chips
	ShortStacks        int // percent chance a stack is tiny (1..3*BB)
	SitOutPct          int // percent chance an initial player stays sitting out
	ViaCreatePct       int
	RandomSeatPct      int
	AnteePct           int // percent chance of ante > 0
	DealerBlindPct     int
	NoSBPct            int
	ActionTimeMax      int
	Modes              []int // weights ct, cash, mtt
}

func (o *GenOpts) defaults() {
	if o.MinSeats == 0 {
		o.MinSeats = 2
	}
	if o.MaxSeats == 0 {
		o.MaxSeats = 10
	}
	if o.Rules == nil {
		o.Rules = []int{4, 1}
	}
	if o.MinPlayersAtStart == 0 {
		o.MinPlayersAtStart = 2
	}
	if o.Modes == nil {
		o.Modes = []int{3, 2, 1}
	}
}

// PlayerID returns the canonical id of player k.
func PlayerID(k int) string { return fmt.Sprintf("p%02d", k) }

// GenConfig draws a table configuration.
func GenConfig(ch choose.Chooser, o GenOpts) Config {
	o.defaults()
	var c Config
	c.Seats = ch.Int("cfg.seats", o.MinSeats, o.MaxSeats)
	if choose.Weighted(ch, "cfg.rule", o.Rules) == 1 {
		c.Rule = pokertable.CompetitionRule_ShortDeck
	} else {
		c.Rule = pokertable.CompetitionRule_Default
	}
	switch choose.Weighted(ch, "cfg.mode", o.Modes) {
	case 0:
		c.Mode = pokertable.CompetitionMode_CT
	case 1:
		c.Mode = pokertable.CompetitionMode_Cash
	default:
		c.Mode = pokertable.CompetitionMode_MTT
	}
	c.MinPlayers = 2
	if c.Seats >= 3 && choose.Chance(ch, "cfg.min3", 20) {
		c.MinPlayers = 3
	}
	bb := int64(2 * (1 + ch.Int("cfg.bb", 0, 24)))
	c.Blind = pokertable.TableBlindState{Level: 1, BB: bb, SB: bb / 2}
	if choose.Chance(ch, "cfg.ante", o.AnteePct) {
		c.Blind.Ante = 1 + int64(ch.Int("cfg.ante.v", 0, int(bb)))
	}
	if c.Rule == pokertable.CompetitionRule_ShortDeck {
		// short deck is played with ante + dealer blind (button blind)
		c.Blind.SB = 0
		c.Blind.BB = 0
		c.Blind.Dealer = bb
		if c.Blind.Ante == 0 {
			c.Blind.Ante = 1 + int64(ch.Int("cfg.ante.sd", 0, int(bb/2)))
		}
	} else {
		if choose.Chance(ch, "cfg.dealerblind", o.DealerBlindPct) {
			c.Blind.Dealer = 1 + int64(ch.Int("cfg.dealer.v", 0, int(bb)))
		}
		if choose.Chance(ch, "cfg.nosb", o.NoSBPct) {
			c.Blind.SB = 0
		}
	}
	c.ActionTime = 0
	if o.ActionTimeMax > 0 {
		c.ActionTime = ch.Int("cfg.actiontime", 0, o.ActionTimeMax)
	}
	maxP := c.Seats
	if o.MaxPlayers > 0 && o.MaxPlayers < maxP {
		maxP = o.MaxPlayers
	}
	minP := o.MinPlayersAtStart
	if minP > maxP {
		minP = maxP
	}
	n := ch.Int("cfg.nplayers", minP, maxP)
	c.ViaCreate = choose.Chance(ch, "cfg.viacreate", o.ViaCreatePct)
	// seats: a drawn subset, in drawn order of arrival
	seatPerm := choose.Perm(ch, "cfg.seatperm", c.Seats)
	inCount := 0
	for k := 0; k < n; k++ {
		p := PlayerSpec{ID: PlayerID(k), Seat: seatPerm[k], Join: true}
		if choose.Chance(ch, "cfg.randseat", o.RandomSeatPct) {
			p.Seat = -1
		}
		p.Chips = genStack(ch, bb, o.ShortStacks)
		if c.Blind.Ante > 0 && p.Chips <= 3*bb+1 && choose.Chance(ch, "cfg.stack.ante", 35) {
			// a stack the ante alone empties: the player is all-in before the blinds are asked for
			p.Chips = 1 + int64(ch.Int("cfg.stack.ante.v", 0, int(c.Blind.Ante)-1))
		}
		if inCount >= o.MinPlayersAtStart && choose.Chance(ch, "cfg.sitout", o.SitOutPct) {
			p.Join = false
		} else {
			inCount++
		}
		c.Players = append(c.Players, p)
	}
	return c
}

func genStack(ch choose.Chooser, bb int64, shortPct int) int64 {
	if choose.Chance(ch, "cfg.short", shortPct) {
		return 1 + int64(ch.Int("cfg.stack.short", 0, int(3*bb)))
	}
	return bb + int64(ch.Int("cfg.stack", 0, int(60*bb)))
}

// FreeSeats lists the free seats of a snapshot.
func FreeSeats(t *pokertable.Table) []int {
	out := []int{}
	for seat, idx := range t.State.SeatMap {
		if idx < 0 {
			out = append(out, seat)
		}
	}
	return out
}
