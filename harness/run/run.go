// Package run is the glue between a property body, rapid, replay scripts,
// known findings and the evidence counters.
package run

import (
	"bufio"
	"flag"
	"fmt"
	"os"
	"path/filepath"
	"runtime/debug"
	"strconv"
	"strings"
	"sync"
	"testing"

	"pgregory.net/rapid"

	"verif/harness/choose"
	"verif/harness/ev"
)

var (
	replayPath = flag.String("verif.replay", "", "replay a saved decision script instead of generating")
	directedN  = flag.Int("verif.directed", -1, "number of seeded directed/free cases before rapid (-1 = default)")
)

// Main redirects the engine's chatter (it prints on every event) away from the
// test output and runs the tests.
func Main(m *testing.M) {
	flag.Parse()
	if os.Getenv("VERIF_KEEP_STDOUT") == "" {
		if devnull, err := os.OpenFile(os.DevNull, os.O_WRONLY, 0); err == nil {
			RealStdout = os.Stdout
			os.Stdout = devnull
		}
	}
	os.Exit(m.Run())
}

// RealStdout is the process's original stdout (os.Stdout is /dev/null).
var RealStdout = os.Stdout

// Seed returns VERIF_SEED (default 1).
func Seed() int64 {
	if v := os.Getenv("VERIF_SEED"); v != "" {
		if n, err := strconv.ParseInt(v, 10, 64); err == nil {
			return n
		}
	}
	return 1
}

// Shard returns VERIF_SHARD (default 0).
func Shard() int {
	if v := os.Getenv("VERIF_SHARD"); v != "" {
		if n, err := strconv.Atoi(v); err == nil {
			return n
		}
	}
	return 0
}

func Tier() string {
	if v := os.Getenv("VERIF_TIER"); v != "" {
		return v
	}
	return "quick"
}

// Scale returns a per-tier count: q for quick, th for thorough.
func Scale(q, th int) int {
	if Tier() == "thorough" {
		return th
	}
	return q
}

type caseEnd struct{}

var lastPanic string

// Ctx is handed to a property body for one case.
type Ctx struct {
	Prop, Check string
	RT          *rapid.T
	TB          testing.TB
	Ch          *choose.Recorder
	St          *ev.Stats
	Replay      bool
	failed      bool
	cleanup     []func()
}

// Defer registers a function to run when the case ends (any way).
func (c *Ctx) Defer(f func()) { c.cleanup = append(c.cleanup, f) }

// known findings ------------------------------------------------------------

type Finding struct {
	Property string
	Status   string // finding | fixed
	Sig      string
	What     string
}

var (
	knownOnce sync.Once
	known     []Finding
)

func loadKnown() {
	path := os.Getenv("VERIF_KNOWN")
	if path == "" {
		path = "/verif/known_findings.txt"
	}
	f, err := os.Open(path)
	if err != nil {
		return
	}
	defer f.Close()
	sc := bufio.NewScanner(f)
	sc.Buffer(make([]byte, 1<<20), 1<<20)
	for sc.Scan() {
		line := strings.TrimSpace(sc.Text())
		if line == "" || strings.HasPrefix(line, "#") {
			continue
		}
		var k Finding
		switch {
		case strings.HasPrefix(line, "finding:"):
			k.Status = "finding"
			line = strings.TrimSpace(strings.TrimPrefix(line, "finding:"))
		case strings.HasPrefix(line, "fixed:"):
			k.Status = "fixed"
			line = strings.TrimSpace(strings.TrimPrefix(line, "fixed:"))
		default:
			continue
		}
		rest := []string{}
		for _, tok := range strings.Fields(line) {
			switch {
			case strings.HasPrefix(tok, "property=") && k.Property == "":
				k.Property = strings.TrimPrefix(tok, "property=")
			case strings.HasPrefix(tok, "signature=") && k.Sig == "":
				k.Sig = strings.TrimPrefix(tok, "signature=")
			default:
				rest = append(rest, tok)
			}
		}
		k.What = strings.Join(rest, " ")
		known = append(known, k)
	}
}

// IsKnown reports whether (property, sig) is listed as an unrepaired finding.
func IsKnown(prop, sig string) *Finding {
	knownOnce.Do(loadKnown)
	for i := range known {
		if known[i].Property == prop && known[i].Status == "finding" && known[i].Sig == sig {
			return &known[i]
		}
	}
	return nil
}

// KnownFor lists the unrepaired findings of a property.
func KnownFor(prop string) []Finding {
	knownOnce.Do(loadKnown)
	out := []Finding{}
	for _, k := range known {
		if k.Property == prop && k.Status == "finding" {
			out = append(out, k)
		}
	}
	return out
}

// ---------------------------------------------------------------------------

func replayDir(prop string) string {
	d := os.Getenv("VERIF_REPLAY_DIR")
	if d == "" {
		d = "/verif/replays"
	}
	d = filepath.Join(d, prop)
	os.MkdirAll(d, 0o755)
	return d
}

var saveMu sync.Mutex
var bestLen = map[string]int{}

// Failf reports a violation with a stable signature. The detailed message goes
// into the saved script; rapid only sees the signature so that shrinking can
// follow the same failure while details vary.
func (c *Ctx) Failf(sig, format string, args ...interface{}) {
	msg := fmt.Sprintf(format, args...)
	if k := IsKnown(c.Prop, sig); k != nil {
		c.St.KnownFinding(fmt.Sprintf("property=%s %s [%s]", c.Prop, k.What, sig))
		c.St.Label("known_finding_hit:"+sig, 1)
		panic(caseEnd{})
	}
	c.failed = true
	path := filepath.Join(replayDir(c.Prop), fmt.Sprintf("%s-%s-seed%d-shard%d.json", c.Check, sanitize(sig), Seed(), Shard()))
	if c.Replay {
		path = ""
	}
	if path != "" {
		saveMu.Lock()
		n := len(c.Ch.Draws)
		if best, ok := bestLen[path]; !ok || n <= best {
			bestLen[path] = n
			c.Ch.Script(c.Prop, c.Check, sig, msg).Save(path)
		}
		saveMu.Unlock()
	}
	c.St.Fail(sig, msg, path)
	if c.RT != nil {
		c.RT.Fatalf("%s", sig)
	}
	c.TB.Errorf("VIOLATION-DETAIL property=%s sig=%s: %s", c.Prop, sig, msg)
	panic(caseEnd{})
}

// Inconclusive ends the case without a verdict and records why.
func (c *Ctx) Inconclusive(format string, args ...interface{}) {
	c.St.Inconclusive(fmt.Sprintf(format, args...))
	panic(caseEnd{})
}

// IsCaseEnd reports whether a recovered panic value is the harness's own
// "this case is over" signal (used by fuzz targets, which run bodies directly).
func IsCaseEnd(r interface{}) bool {
	_, ok := r.(caseEnd)
	return ok
}

// End ends the case early (nothing more to do).
func (c *Ctx) End() { panic(caseEnd{}) }

func sanitize(s string) string {
	b := []byte(s)
	for i, ch := range b {
		if !(ch >= 'a' && ch <= 'z' || ch >= 'A' && ch <= 'Z' || ch >= '0' && ch <= '9' || ch == '.' || ch == '-') {
			b[i] = '_'
		}
	}
	if len(b) > 60 {
		b = b[:60]
	}
	return string(b)
}

// RunBody runs a body with the case-end handling and cleanups of a generated case
// (for pinned demonstrations that build their own contexts).
func (c *Ctx) RunBody(body func(c *Ctx)) { c.runBody(body) }

func (c *Ctx) runBody(body func(c *Ctx)) {
	defer func() {
		for i := len(c.cleanup) - 1; i >= 0; i-- {
			func() {
				defer func() { recover() }()
				c.cleanup[i]()
			}()
		}
	}()
	defer func() {
		if r := recover(); r != nil {
			if _, ok := r.(caseEnd); ok {
				return
			}
			// a panic that is not the harness's own case-end signal: rapid would swallow it into
			// its log (which goes to the discarded stdout); keep it visible on stderr
			if !c.failed && fmt.Sprint(r) != lastPanic {
				lastPanic = fmt.Sprint(r)
				fmt.Fprintf(os.Stderr, "HARNESS-PANIC property=%s check=%s: %v\n%s\n", c.Prop, c.Check, r, debug.Stack())
			}
			panic(r)
		}
	}()
	body(c)
}

// seeded is a deterministic pseudo-random chooser (pure function of its seed)
// used for the seeded cases that run before rapid takes over.
type seeded struct{ r *choose.SplitMix }

func (s seeded) Int(label string, lo, hi int) int {
	if hi <= lo {
		return lo
	}
	return lo + s.r.Intn(hi-lo+1)
}

// Property runs one property: replay mode, or `pre` seeded cases (plain loop,
// no library) followed by rapid.Check with the flags given on the command line.
func Property(t *testing.T, prop, check string, st *ev.Stats, pre int, body func(c *Ctx)) {
	defer st.Write()
	if *replayPath != "" {
		sc, err := choose.LoadScript(*replayPath)
		if err != nil {
			t.Fatalf("replay: %v", err)
		}
		if sc.Check != "" && sc.Check != check {
			t.Skipf("script is for check %s", sc.Check)
		}
		// The code under test has unseedable randomness of its own (initial
		// button, random seats): retry until the recorded failure recurs.
		attempts := 60
		for i := 0; i < attempts; i++ {
			c := &Ctx{Prop: prop, Check: check, TB: &quietTB{T: t}, St: st, Replay: true}
			c.Ch = choose.NewRecorder(choose.NewScriptChooser(sc.Draws))
			c.runBody(body)
			if c.failed {
				msg := sc.Message
				if n := len(st.Failures); n > 0 {
					msg = st.Failures[n-1].Sig + ": " + st.Failures[n-1].Message
				}
				fmt.Fprintf(os.Stderr, "replay reproduced (attempt %d): property=%s %s\n", i+1, prop, msg)
				for _, l := range c.Ch.Notes {
					fmt.Fprintln(os.Stderr, "  | "+l)
				}
				t.Errorf("replay reproduced: property=%s sig=%s (attempt %d)", prop, sc.Sig, i+1)
				return
			}
		}
		t.Logf("replay: not reproduced in %d attempts", attempts)
		return
	}
	if *directedN >= 0 {
		pre = *directedN
	}
	for i := 0; i < pre; i++ {
		c := &Ctx{Prop: prop, Check: check, TB: t, St: st}
		seed := uint64(Seed())*1000003 + uint64(Shard())*7919 + uint64(i)
		c.Ch = choose.NewRecorder(seeded{choose.NewSplitMix(seed)})
		c.runBody(body)
		if t.Failed() {
			return
		}
	}
	rapid.Check(t, func(rt *rapid.T) {
		c := &Ctx{Prop: prop, Check: check, RT: rt, TB: t, St: st}
		c.Ch = choose.NewRecorder(choose.Rapid{T: rt})
		c.runBody(body)
	})
}

// quietTB turns Errorf into a flag during replay attempts.
type quietTB struct {
	*testing.T
}

func (q *quietTB) Errorf(format string, args ...interface{}) {}

// Pinned searches seeded cases (no library) until a listed known finding with
// the given signature has been demonstrated, at most max cases. It keeps the
// KNOWN-FINDING line of a finding that the random campaign only meets now and then
// visible in every run. Any other failure it meets is reported as usual.
func Pinned(t *testing.T, prop, check string, st *ev.Stats, sig string, max int, body func(c *Ctx)) {
	defer st.Write()
	if IsKnown(prop, sig) == nil {
		return // nothing listed (repaired): nothing to pin
	}
	want := "[" + sig + "]"
	for i := 0; i < max; i++ {
		c := &Ctx{Prop: prop, Check: check, TB: t, St: st}
		c.Ch = choose.NewRecorder(seeded{choose.NewSplitMix(uint64(424243 + i*7919))})
		c.runBody(body)
		if t.Failed() {
			return
		}
		for _, k := range st.Known {
			if strings.HasSuffix(k, want) {
				st.Add("pinned_cases_until_demonstrated", int64(i+1))
				return
			}
		}
	}
	st.Add("pinned_not_demonstrated", 1)
}
