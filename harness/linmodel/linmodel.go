// Package linmodel is the sequential seat-bookkeeping specification used as the
// linearizability oracle (porcupine) for concurrent membership workloads.
package linmodel

import (
	"fmt"
	"sort"
	"strings"

	"github.com/anishathalye/porcupine"
	"github.com/weedbox/pokertable"
)

type Op struct {
	Kind  string // reserve | leave | update-join | update-leave | final
	ID    string
	Seat  int // -1 random
	IDs   []string
	Joins []pokertable.JoinPlayer
	N     int
}

type Out struct {
	OK    bool
	Final string
	Ret   string
}

func Enc(m map[string]int) string {
	ks := make([]string, 0, len(m))
	for id, s := range m {
		ks = append(ks, fmt.Sprintf("%s@%d", id, s))
	}
	sort.Strings(ks)
	return strings.Join(ks, ",")
}

func Dec(s string) map[string]int {
	m := map[string]int{}
	if s == "" {
		return m
	}
	for _, kv := range strings.Split(s, ",") {
		var id string
		var seat int
		i := strings.LastIndex(kv, "@")
		id = kv[:i]
		fmt.Sscan(kv[i+1:], &seat)
		m[id] = seat
	}
	return m
}

func freeSeats(m map[string]int, n int) []int {
	used := map[int]bool{}
	for _, s := range m {
		used[s] = true
	}
	out := []int{}
	for s := 0; s < n; s++ {
		if !used[s] {
			out = append(out, s)
		}
	}
	return out
}

// seatStep: all states the sequential specification allows after (input, output).
func seatStep(state interface{}, input interface{}, output interface{}) []interface{} {
	st := Dec(state.(string))
	in := input.(Op)
	out := output.(Out)
	same := []interface{}{state}
	switch in.Kind {
	case "final":
		if out.Final == state.(string) {
			return same
		}
		return nil
	case "reserve":
		if _, seated := st[in.ID]; seated {
			// re-buy: always accepted, seats unchanged
			if out.OK {
				return same
			}
			return nil
		}
		free := freeSeats(st, in.N)
		if in.Seat >= 0 {
			okPossible := len(st) < in.N && in.Seat < in.N
			for _, s := range st {
				if s == in.Seat {
					okPossible = false
				}
			}
			if out.OK {
				if !okPossible {
					return nil
				}
				st[in.ID] = in.Seat
				return []interface{}{Enc(st)}
			}
			if okPossible {
				return nil // a valid reservation was refused
			}
			return same
		}
		if out.OK {
			res := []interface{}{}
			for _, f := range free {
				c := Dec(state.(string))
				c[in.ID] = f
				res = append(res, Enc(c))
			}
			return res
		}
		if len(free) > 0 {
			return nil
		}
		return same
	case "assign":
		// seat-manager level: an id that is already seated is refused
		_, seated := st[in.ID]
		okPossible := !seated && len(st) < in.N && in.Seat >= 0 && in.Seat < in.N
		for _, s := range st {
			if s == in.Seat {
				okPossible = false
			}
		}
		if out.OK {
			if !okPossible {
				return nil
			}
			st[in.ID] = in.Seat
			return []interface{}{Enc(st)}
		}
		if okPossible {
			return nil
		}
		return same
	case "touch":
		// join / has-chips update: accepted iff the player is seated; seats unchanged
		_, seated := st[in.ID]
		if out.OK == seated {
			return same
		}
		return nil
	case "leave":
		all := true
		for _, id := range in.IDs {
			if _, ok := st[id]; !ok {
				all = false
			}
		}
		if out.OK {
			if !all {
				return nil
			}
			for _, id := range in.IDs {
				delete(st, id)
			}
			return []interface{}{Enc(st)}
		}
		if all {
			return nil
		}
		return same
	case "update-join":
		// join-only batch: all or nothing
		okPossible := len(st)+len(in.Joins) <= in.N
		seen := map[string]bool{}
		seats := map[int]bool{}
		nRandom := 0
		for _, j := range in.Joins {
			if _, seated := st[j.PlayerID]; seated || seen[j.PlayerID] {
				okPossible = false
			}
			seen[j.PlayerID] = true
			if j.Seat >= 0 {
				if j.Seat >= in.N || seats[j.Seat] {
					okPossible = false
				}
				seats[j.Seat] = true
				for _, s := range st {
					if s == j.Seat {
						okPossible = false
					}
				}
			} else {
				nRandom++
			}
		}
		if !out.OK {
			if okPossible {
				return nil
			}
			return same
		}
		if !okPossible {
			return nil
		}
		for _, j := range in.Joins {
			if j.Seat >= 0 {
				st[j.PlayerID] = j.Seat
			}
		}
		states := []string{Enc(st)}
		for _, j := range in.Joins {
			if j.Seat >= 0 {
				continue
			}
			next := []string{}
			for _, s := range states {
				m := Dec(s)
				for _, f := range freeSeats(m, in.N) {
					c := Dec(s)
					c[j.PlayerID] = f
					next = append(next, Enc(c))
				}
			}
			states = next
		}
		res := []interface{}{}
		for _, s := range states {
			if out.Ret == "" || out.Ret == s {
				res = append(res, s)
			}
		}
		return res
	}
	return nil
}

// SeatModel is the sequential specification of seat bookkeeping.
var SeatModel = (&porcupine.NondeterministicModel{
	Init: func() []interface{} { return []interface{}{""} },
	Step: seatStep,
	Equal: func(a, b interface{}) bool {
		return a.(string) == b.(string)
	},
	DescribeOperation: func(in, out interface{}) string { return fmt.Sprintf("%+v -> %+v", in, out) },
}).ToModel()
