// Package choose provides the single source of every decision the harness
// makes. All randomness flows through a Chooser so that rapid can shrink and
// replay, scripts can replay without the library, and fuzz bytes can be decoded.
package choose

import (
	"encoding/json"
	"fmt"
	"os"
	"strings"

	"pgregory.net/rapid"
)

// Chooser draws bounded integers. Implementations must be pure functions of
// their own input (rapid bit stream, script, fuzz bytes).
type Chooser interface {
	// Int returns a value in [lo, hi] (inclusive). lo is the "simplest" value.
	Int(label string, lo, hi int) int
}

// Draw is one recorded decision.
type Draw struct {
	L  string `json:"l"`
	Lo int    `json:"lo"`
	Hi int    `json:"hi"`
	V  int    `json:"v"`
}

// Recorder wraps a chooser and records every draw (the decision script).
type Recorder struct {
	Inner Chooser
	Draws []Draw
	Notes []string // observations of SUT-internal nondeterminism and op log
}

func NewRecorder(inner Chooser) *Recorder { return &Recorder{Inner: inner} }

func (r *Recorder) Int(label string, lo, hi int) int {
	if hi < lo {
		hi = lo
	}
	v := r.Inner.Int(label, lo, hi)
	if v < lo {
		v = lo
	}
	if v > hi {
		v = hi
	}
	r.Draws = append(r.Draws, Draw{label, lo, hi, v})
	return v
}

// Note appends a human readable line to the op log of the script.
func (r *Recorder) Note(format string, args ...interface{}) {
	if len(r.Notes) < 4000 {
		r.Notes = append(r.Notes, fmt.Sprintf(format, args...))
	}
}

// Script is the replay file format.
type Script struct {
	Property string   `json:"property"`
	Check    string   `json:"check"`
	Message  string   `json:"message"`
	Sig      string   `json:"signature"`
	Draws    []Draw   `json:"draws"`
	Ops      []string `json:"ops"`
}

func (r *Recorder) Script(property, check, sig, msg string) *Script {
	return &Script{Property: property, Check: check, Sig: sig, Message: msg, Draws: append([]Draw(nil), r.Draws...), Ops: append([]string(nil), r.Notes...)}
}

func (s *Script) Save(path string) error {
	b, err := json.MarshalIndent(s, "", " ")
	if err != nil {
		return err
	}
	return os.WriteFile(path, b, 0o644)
}

func LoadScript(path string) (*Script, error) {
	b, err := os.ReadFile(path)
	if err != nil {
		return nil, err
	}
	var s Script
	if err := json.Unmarshal(b, &s); err != nil {
		return nil, err
	}
	return &s, nil
}

// ---------------------------------------------------------------------------

// Rapid draws from a *rapid.T.
type Rapid struct{ T *rapid.T }

func (c Rapid) Int(label string, lo, hi int) int {
	if hi <= lo {
		return lo
	}
	return rapid.IntRange(lo, hi).Draw(c.T, label)
}

// ScriptChooser replays recorded values in order; labels are checked loosely
// (a mismatch only means the SUT took a different internal random branch).
type ScriptChooser struct {
	Vals []Draw
	pos  int
	// Mismatch counts label mismatches seen during replay.
	Mismatch int
}

func NewScriptChooser(draws []Draw) *ScriptChooser { return &ScriptChooser{Vals: draws} }

func (c *ScriptChooser) Int(label string, lo, hi int) int {
	if c.pos >= len(c.Vals) {
		return lo
	}
	d := c.Vals[c.pos]
	c.pos++
	if d.L != label {
		c.Mismatch++
	}
	v := d.V
	if v < lo {
		v = lo
	}
	if v > hi {
		v = hi
	}
	return v
}

// Prefix plays a fixed list of values first and then delegates: used for the
// directed cases that guarantee mandatory classes by construction.
type Prefix struct {
	Vals []int
	pos  int
	Then Chooser
}

func (c *Prefix) Int(label string, lo, hi int) int {
	if c.pos < len(c.Vals) {
		v := c.Vals[c.pos]
		c.pos++
		if v < lo {
			v = lo
		}
		if v > hi {
			v = hi
		}
		return v
	}
	return c.Then.Int(label, lo, hi)
}

// Bytes decodes fuzz input: one or two bytes per draw depending on range.
type Bytes struct {
	B   []byte
	pos int
}

func (c *Bytes) Int(label string, lo, hi int) int {
	if hi <= lo {
		return lo
	}
	span := hi - lo + 1
	var v int
	if span <= 256 {
		if c.pos >= len(c.B) {
			return lo
		}
		v = int(c.B[c.pos])
		c.pos++
	} else {
		if c.pos+1 >= len(c.B) {
			c.pos = len(c.B)
			return lo
		}
		v = int(c.B[c.pos])<<8 | int(c.B[c.pos+1])
		c.pos += 2
	}
	return lo + v%span
}

// Exhausted reports whether all bytes were consumed.
func (c *Bytes) Exhausted() bool { return c.pos >= len(c.B) }

// ---------------------------------------------------------------------------
// helpers

// Chance returns true with roughly pct percent; false is the simple value.
func Chance(c Chooser, label string, pct int) bool {
	if pct <= 0 {
		return false
	}
	if pct >= 100 {
		return true
	}
	return c.Int(label, 0, 99) >= 100-pct
}

// Weighted picks an index with the given weights; index 0 is simplest.
func Weighted(c Chooser, label string, weights []int) int {
	total := 0
	for _, w := range weights {
		if w > 0 {
			total += w
		}
	}
	if total <= 0 {
		return 0
	}
	v := c.Int(label, 0, total-1)
	for i, w := range weights {
		if w <= 0 {
			continue
		}
		if v < w {
			return i
		}
		v -= w
	}
	return len(weights) - 1
}

// Perm draws a permutation of n elements (Fisher-Yates with drawn indexes).
func Perm(c Chooser, label string, n int) []int {
	p := make([]int, n)
	for i := range p {
		p[i] = i
	}
	for i := 0; i < n-1; i++ {
		j := i + c.Int(label, 0, n-1-i)
		p[i], p[j] = p[j], p[i]
	}
	return p
}

// SplitMix is a tiny deterministic PRNG used to expand one drawn integer into a
// long pseudo-random sequence (deck permutations). It is a pure function of the
// drawn seed, so replay and shrinking are unaffected.
type SplitMix struct{ s uint64 }

func NewSplitMix(seed uint64) *SplitMix { return &SplitMix{s: seed*0x9E3779B97F4A7C15 + 0x1234567} }

func (r *SplitMix) Next() uint64 {
	r.s += 0x9E3779B97F4A7C15
	z := r.s
	z = (z ^ (z >> 30)) * 0xBF58476D1CE4E5B9
	z = (z ^ (z >> 27)) * 0x94D049BB133111EB
	return z ^ (z >> 31)
}

func (r *SplitMix) Intn(n int) int { return int(r.Next() % uint64(n)) }

// Join is a convenience for op logs.
func Join(ss []string) string { return strings.Join(ss, ",") }
