// Package ev collects what a check run actually covered: case counts, labels,
// fingerprints of non-trivial cases, samples. One Stats per test process
// (shard); the driver script merges shards into evidence/<ID>.json.
package ev

import (
	"encoding/json"
	"fmt"
	"hash/fnv"
	"os"
	"sort"
	"sync"
)

type Stats struct {
	mu sync.Mutex

	Property    string           `json:"property"`
	Check       string           `json:"check"`
	Evaluations int              `json:"evaluations"`
	Nontrivial  int              `json:"nontrivial"` // non-trivial cases (not de-duplicated)
	Finger      map[uint64]int   `json:"-"`
	Fingerprint []uint64         `json:"fingerprints"`
	Labels      map[string]int   `json:"labels"`
	Excluded    map[string]int   `json:"excluded"`
	Samples     []interface{}    `json:"samples"`
	Extra       map[string]int64 `json:"extra"`
	Exhaustive  bool             `json:"exhaustive"`
	Failures    []Failure        `json:"failures"`
	Known       []string         `json:"known"` // known findings demonstrated
	Inconcl     []string         `json:"inconclusive"`
	maxSamples  int
	maxFinger   int
}

type Failure struct {
	Sig     string `json:"sig"`
	Message string `json:"message"`
	Replay  string `json:"replay"`
}

func New(property, check string) *Stats {
	return &Stats{Property: property, Check: check, Finger: map[uint64]int{}, Labels: map[string]int{}, Excluded: map[string]int{}, Extra: map[string]int64{}, maxSamples: 6, maxFinger: 400000}
}

// Case records one executed case. labels are counted; if nontrivial, the
// fingerprint (hash of the abstract trace) is recorded for distinct counting.
func (s *Stats) Case(labels []string, nontrivial bool, trace string, sample func() interface{}) {
	s.mu.Lock()
	defer s.mu.Unlock()
	s.Evaluations++
	seen := map[string]bool{}
	for _, l := range labels {
		if !seen[l] {
			seen[l] = true
			s.Labels[l]++
		}
	}
	if nontrivial {
		s.Nontrivial++
		h := fnv.New64a()
		h.Write([]byte(trace))
		fp := h.Sum64()
		if _, ok := s.Finger[fp]; ok || len(s.Finger) < s.maxFinger {
			s.Finger[fp]++
		}
		if len(s.Samples) < s.maxSamples && sample != nil && s.Finger[fp] == 1 {
			// spread samples: take 1st, then every case whose count is a power of 4
			n := s.Nontrivial
			if n == 1 || n == 4 || n == 16 || n == 64 || n == 256 || n == 1024 {
				s.Samples = append(s.Samples, sample())
			}
		}
	}
}

func (s *Stats) Label(l string, n int) {
	s.mu.Lock()
	s.Labels[l] += n
	s.mu.Unlock()
}

func (s *Stats) Exclude(l string, n int) {
	s.mu.Lock()
	s.Excluded[l] += n
	s.mu.Unlock()
}

func (s *Stats) Add(key string, n int64) {
	s.mu.Lock()
	s.Extra[key] += n
	s.mu.Unlock()
}

func (s *Stats) Sample(v interface{}) {
	s.mu.Lock()
	if len(s.Samples) < s.maxSamples+4 {
		s.Samples = append(s.Samples, v)
	}
	s.mu.Unlock()
}

func (s *Stats) Fail(sig, msg, replay string) {
	s.mu.Lock()
	s.Failures = append(s.Failures, Failure{sig, msg, replay})
	s.mu.Unlock()
}

func (s *Stats) KnownFinding(line string) {
	s.mu.Lock()
	for _, k := range s.Known {
		if k == line {
			s.mu.Unlock()
			return
		}
	}
	s.Known = append(s.Known, line)
	s.mu.Unlock()
}

func (s *Stats) Inconclusive(why string) {
	s.mu.Lock()
	s.Inconcl = append(s.Inconcl, why)
	s.mu.Unlock()
}

// Write dumps the stats to the path in VERIF_STATS_OUT (if set).
func (s *Stats) Write() {
	path := os.Getenv("VERIF_STATS_OUT")
	if path == "" {
		return
	}
	s.mu.Lock()
	defer s.mu.Unlock()
	s.Fingerprint = s.Fingerprint[:0]
	for fp := range s.Finger {
		s.Fingerprint = append(s.Fingerprint, fp)
	}
	sort.Slice(s.Fingerprint, func(i, j int) bool { return s.Fingerprint[i] < s.Fingerprint[j] })
	b, err := json.Marshal(s)
	if err != nil {
		fmt.Fprintln(os.Stderr, "ev: marshal:", err)
		return
	}
	// several tests of one process may share a file: append one JSON per line
	f, err := os.OpenFile(path, os.O_APPEND|os.O_CREATE|os.O_WRONLY, 0o644)
	if err != nil {
		fmt.Fprintln(os.Stderr, "ev: open:", err)
		return
	}
	defer f.Close()
	f.Write(append(b, '\n'))
}
