// Package backend is a GameBackend (public pokertable interface) that wraps the
// native backend: it logs every call, controls the deck, injects faults and can
// replay the successful calls on a pure native backend as a reference.
package backend

import (
	"encoding/json"
	"errors"
	"hash/fnv"
	"sync"

	"github.com/weedbox/pokerface"
	"github.com/weedbox/pokertable"
)

// ErrInjected is the sentinel returned by injected faults.
var ErrInjected = errors.New("verif: injected backend failure")

type Call struct {
	Ord       int    `json:"ord"`
	Kind      string `json:"kind"`
	Arg       int64  `json:"arg"`
	GameID    string `json:"game_id"`
	CurPlayer int    `json:"cur_player"` // CurrentPlayer of the input state
	InEvent   string `json:"in_event"`
	OutEvent  string `json:"out_event"`
	InHash    uint64 `json:"in_hash"`
	OutHash   uint64 `json:"out_hash"`
	InNorm    uint64 `json:"in_norm"`
	OutNorm   uint64 `json:"out_norm"`
	Err       string `json:"err,omitempty"`
	Injected  bool   `json:"injected,omitempty"`
	LostReply bool   `json:"lost_reply,omitempty"` // injected after the real backend had worked on the state
}

// Hand is everything recorded about one CreateGame and what followed.
type Hand struct {
	Create  Call
	Opts    *pokerface.GameOptions
	Initial *pokerface.GameState // state returned by CreateGame (after deck override)
	Calls   []Call               // calls after CreateGame, in order
	Final   *pokerface.GameState // output of the last successful call
}

type Wrapper struct {
	mu     sync.Mutex
	inner  pokertable.GameBackend
	ord    int
	Hands  []*Hand
	All    []Call // every call including CreateGame
	DeckFn func(opts *pokerface.GameOptions, gs *pokerface.GameState) []string
	// FaultFn decides whether call number ord (global ordinal) of the given kind fails.
	FaultFn func(ord int, kind string, gs *pokerface.GameState) bool
	// FaultAfter is consulted when FaultFn decided that a call fails: true = the call is
	// delegated to the real backend first and only its reply is lost (the caller still gets
	// the injected error); false = the call fails before it reaches the real backend.
	FaultAfter func(ord int, kind string) bool
	// OnCall is invoked after every call (outside the lock), for event pumps.
	OnCall func(c Call)
}

func New() *Wrapper { return &Wrapper{inner: pokertable.NewNativeGameBackend()} }

// NewAround wraps an existing backend (e.g. the one a Manager installed).
func NewAround(inner pokertable.GameBackend) *Wrapper { return &Wrapper{inner: inner} }

func HashState(gs *pokerface.GameState) uint64 {
	if gs == nil {
		return 0
	}
	b, _ := json.Marshal(gs)
	h := fnv.New64a()
	h.Write(b)
	return h.Sum64()
}

// HashNorm hashes a state without the players' allowed actions: the table-side
// game wrapper adds "ready" / "pay" to them between two backend calls, which is
// not a residue of a failed call.
func HashNorm(gs *pokerface.GameState) uint64 {
	if gs == nil {
		return 0
	}
	c := CloneState(gs)
	for _, p := range c.Players {
		p.AllowedActions = nil
	}
	return HashState(c)
}

func CloneState(gs *pokerface.GameState) *pokerface.GameState {
	if gs == nil {
		return nil
	}
	b, _ := json.Marshal(gs)
	var out pokerface.GameState
	json.Unmarshal(b, &out)
	return &out
}

func (w *Wrapper) cur() *Hand {
	if len(w.Hands) == 0 {
		return nil
	}
	return w.Hands[len(w.Hands)-1]
}

// CurrentHand returns the record of the running/last hand.
func (w *Wrapper) CurrentHand() *Hand {
	w.mu.Lock()
	defer w.mu.Unlock()
	return w.cur()
}

func (w *Wrapper) NumCalls() int {
	w.mu.Lock()
	defer w.mu.Unlock()
	return len(w.All)
}

// CallsSince returns a copy of the calls with index >= from.
func (w *Wrapper) CallsSince(from int) []Call {
	w.mu.Lock()
	defer w.mu.Unlock()
	if from > len(w.All) {
		from = len(w.All)
	}
	return append([]Call(nil), w.All[from:]...)
}

func (w *Wrapper) CreateGame(opts *pokerface.GameOptions) (*pokerface.GameState, error) {
	w.mu.Lock()
	w.ord++
	c := Call{Ord: w.ord, Kind: "CreateGame"}
	if w.FaultFn != nil && w.FaultFn(c.Ord, c.Kind, nil) {
		c.Err, c.Injected = ErrInjected.Error(), true
		w.All = append(w.All, c)
		cb := w.OnCall
		w.mu.Unlock()
		if cb != nil {
			cb(c)
		}
		return nil, ErrInjected
	}
	ob, _ := json.Marshal(opts)
	var oc pokerface.GameOptions
	json.Unmarshal(ob, &oc)
	gs, err := w.inner.CreateGame(opts)
	if err != nil {
		c.Err = err.Error()
		w.All = append(w.All, c)
		cb := w.OnCall
		w.mu.Unlock()
		if cb != nil {
			cb(c)
		}
		return nil, err
	}
	if w.DeckFn != nil {
		if d := w.DeckFn(&oc, gs); d != nil {
			gs.Meta.Deck = d
		}
	}
	c.GameID = gs.GameID
	c.OutEvent = gs.Status.CurrentEvent
	c.OutHash = HashState(gs)
	c.OutNorm = HashNorm(gs)
	w.Hands = append(w.Hands, &Hand{Create: c, Opts: &oc, Initial: CloneState(gs), Final: CloneState(gs)})
	w.All = append(w.All, c)
	cb := w.OnCall
	w.mu.Unlock()
	if cb != nil {
		cb(c)
	}
	return gs, nil
}

func (w *Wrapper) do(kind string, arg int64, gs *pokerface.GameState, f func() (*pokerface.GameState, error)) (*pokerface.GameState, error) {
	w.mu.Lock()
	w.ord++
	c := Call{Ord: w.ord, Kind: kind, Arg: arg}
	if gs != nil {
		c.GameID = gs.GameID
		c.CurPlayer = gs.Status.CurrentPlayer
		c.InEvent = gs.Status.CurrentEvent
		c.InHash = HashState(gs)
		c.InNorm = HashNorm(gs)
	}
	if w.FaultFn != nil && w.FaultFn(c.Ord, kind, gs) {
		c.Err, c.Injected = ErrInjected.Error(), true
		if w.FaultAfter != nil && w.FaultAfter(c.Ord, kind) {
			// the real backend works on the state it was handed; its reply never arrives
			f()
			c.LostReply = true
		}
		w.All = append(w.All, c)
		if h := w.cur(); h != nil {
			h.Calls = append(h.Calls, c)
		}
		cb := w.OnCall
		w.mu.Unlock()
		if cb != nil {
			cb(c)
		}
		return nil, ErrInjected
	}
	out, err := f()
	if err != nil {
		c.Err = err.Error()
	} else {
		c.OutEvent = out.Status.CurrentEvent
		c.OutHash = HashState(out)
		c.OutNorm = HashNorm(out)
	}
	w.All = append(w.All, c)
	if h := w.cur(); h != nil {
		h.Calls = append(h.Calls, c)
		if err == nil {
			h.Final = CloneState(out)
		}
	}
	cb := w.OnCall
	w.mu.Unlock()
	if cb != nil {
		cb(c)
	}
	return out, err
}

func (w *Wrapper) ReadyForAll(gs *pokerface.GameState) (*pokerface.GameState, error) {
	return w.do("ReadyForAll", 0, gs, func() (*pokerface.GameState, error) { return w.inner.ReadyForAll(gs) })
}
func (w *Wrapper) PayAnte(gs *pokerface.GameState) (*pokerface.GameState, error) {
	return w.do("PayAnte", 0, gs, func() (*pokerface.GameState, error) { return w.inner.PayAnte(gs) })
}
func (w *Wrapper) PayBlinds(gs *pokerface.GameState) (*pokerface.GameState, error) {
	return w.do("PayBlinds", 0, gs, func() (*pokerface.GameState, error) { return w.inner.PayBlinds(gs) })
}
func (w *Wrapper) Next(gs *pokerface.GameState) (*pokerface.GameState, error) {
	return w.do("Next", 0, gs, func() (*pokerface.GameState, error) { return w.inner.Next(gs) })
}
func (w *Wrapper) Pay(gs *pokerface.GameState, chips int64) (*pokerface.GameState, error) {
	return w.do("Pay", chips, gs, func() (*pokerface.GameState, error) { return w.inner.Pay(gs, chips) })
}
func (w *Wrapper) Fold(gs *pokerface.GameState) (*pokerface.GameState, error) {
	return w.do("Fold", 0, gs, func() (*pokerface.GameState, error) { return w.inner.Fold(gs) })
}
func (w *Wrapper) Check(gs *pokerface.GameState) (*pokerface.GameState, error) {
	return w.do("Check", 0, gs, func() (*pokerface.GameState, error) { return w.inner.Check(gs) })
}
func (w *Wrapper) Call(gs *pokerface.GameState) (*pokerface.GameState, error) {
	return w.do("Call", 0, gs, func() (*pokerface.GameState, error) { return w.inner.Call(gs) })
}
func (w *Wrapper) Allin(gs *pokerface.GameState) (*pokerface.GameState, error) {
	return w.do("Allin", 0, gs, func() (*pokerface.GameState, error) { return w.inner.Allin(gs) })
}
func (w *Wrapper) Bet(gs *pokerface.GameState, chips int64) (*pokerface.GameState, error) {
	return w.do("Bet", chips, gs, func() (*pokerface.GameState, error) { return w.inner.Bet(gs, chips) })
}
func (w *Wrapper) Raise(gs *pokerface.GameState, chipLevel int64) (*pokerface.GameState, error) {
	return w.do("Raise", chipLevel, gs, func() (*pokerface.GameState, error) { return w.inner.Raise(gs, chipLevel) })
}
func (w *Wrapper) Pass(gs *pokerface.GameState) (*pokerface.GameState, error) {
	return w.do("Pass", 0, gs, func() (*pokerface.GameState, error) { return w.inner.Pass(gs) })
}

// Replay re-applies the successful calls of a hand to its initial state on a
// fresh native backend (no table around it) and returns the resulting state.
func Replay(h *Hand) (*pokerface.GameState, error) {
	nb := pokertable.NewNativeGameBackend()
	gs := CloneState(h.Initial)
	for _, c := range h.Calls {
		if c.Err != "" {
			continue
		}
		var err error
		switch c.Kind {
		case "ReadyForAll":
			gs, err = nb.ReadyForAll(gs)
		case "PayAnte":
			gs, err = nb.PayAnte(gs)
		case "PayBlinds":
			gs, err = nb.PayBlinds(gs)
		case "Next":
			gs, err = nb.Next(gs)
		case "Pay":
			gs, err = nb.Pay(gs, c.Arg)
		case "Fold":
			gs, err = nb.Fold(gs)
		case "Check":
			gs, err = nb.Check(gs)
		case "Call":
			gs, err = nb.Call(gs)
		case "Allin":
			gs, err = nb.Allin(gs)
		case "Bet":
			gs, err = nb.Bet(gs, c.Arg)
		case "Raise":
			gs, err = nb.Raise(gs, c.Arg)
		case "Pass":
			gs, err = nb.Pass(gs)
		default:
			err = errors.New("replay: unknown call kind " + c.Kind)
		}
		if err != nil {
			return gs, err
		}
	}
	return gs, nil
}

// NormalizedJSON renders a game state without the wall-clock field.
func NormalizedJSON(gs *pokerface.GameState) string {
	if gs == nil {
		return "null"
	}
	c := CloneState(gs)
	c.UpdatedAt = 0
	b, _ := json.Marshal(c)
	return string(b)
}
