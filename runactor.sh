#!/bin/bash
export GOFLAGS=-mod=mod GOPROXY=off GOSUMDB=off GOTOOLCHAIN=local
cd /verif && go test -c -tags verif -o bin/actor.test ./checks/actor/ || exit 3
cd checks/actor && rm -rf /tmp/rp /tmp/sta.json && VERIF_STATS_OUT=/tmp/sta.json VERIF_REPLAY_DIR=/tmp/rp ../../bin/actor.test -test.run "$1" -rapid.checks=${2:-2000} -rapid.seed=${3:-7} -test.timeout 300s; echo exit=$?
python3 - <<'PY' 2>/dev/null
import json,glob
for f in glob.glob('/tmp/rp/*/*.json'):
    d=json.load(open(f)); print(f); print(d['message']); print('\n'.join(d['ops'][-14:]))
for l in open('/tmp/sta.json'):
    d=json.loads(l); print(d['check'], d['evaluations'], d['nontrivial'], len(d['fingerprints']), d['labels'], d['extra'], d['exhaustive'])
PY
