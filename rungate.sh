#!/bin/bash
export GOFLAGS=-mod=mod GOPROXY=off GOSUMDB=off GOTOOLCHAIN=local
cd /verif && go test -c -tags verif -o bin/gate.test ./checks/gate/ || exit 3
cd checks/gate && rm -rf /tmp/rp /tmp/st9.json && VERIF_STATS_OUT=/tmp/st9.json VERIF_REPLAY_DIR=/tmp/rp ../../bin/gate.test -test.run "$1" -rapid.checks=${2:-2000} -rapid.seed=${3:-7} -test.timeout 300s; echo exit=$?
python3 - <<'PY' 2>/dev/null
import json,glob
for f in glob.glob('/tmp/rp/*/*.json'):
    d=json.load(open(f)); print(f); print(d['message']); print('\n'.join(d['ops'][-14:]))
for l in open('/tmp/st9.json'):
    d=json.loads(l); print(d['check'], d['evaluations'], d['nontrivial'], len(d['fingerprints']), d['labels'], d['extra'], d['exhaustive'])
PY
