#!/bin/bash
# usage: runtable.sh <TestRegex> [checks] [seed]
export GOFLAGS=-mod=mod GOPROXY=off GOSUMDB=off GOTOOLCHAIN=local
cd /verif && go test -c -tags verif -o bin/table.test ./checks/table/ || exit 3
cd checks/table && rm -rf /tmp/rp /tmp/stt.json && VERIF_STATS_OUT=/tmp/stt.json VERIF_REPLAY_DIR=/tmp/rp timeout 600 ../../bin/table.test -test.run "$1" -rapid.checks=${2:-300} -rapid.seed=${3:-7} -rapid.nofailfile -test.timeout 500s 2>&1 | tail -${TAIL:-5}; echo exit=${PIPESTATUS[0]}
python3 - <<'PY' 2>/dev/null
import json,glob
for f in glob.glob('/tmp/rp/*/*.json'):
    d=json.load(open(f)); print(f); print(d['message']); print(len(d['draws']),'draws'); print('\n'.join(d['ops'][-40:]))
for l in open('/tmp/stt.json'):
    d=json.loads(l); print(d['check'], 'eval',d['evaluations'], 'nontriv',d['nontrivial'], 'distinct',len(d['fingerprints'] or []), d['labels'], d['extra'], d['known'], (d['inconclusive'] or [])[:3])
PY
