#!/bin/bash
# Offline warm build of all check binaries (files on disk only).
set -e
cd "$(dirname "$0")"
export GOFLAGS=-mod=mod GOPROXY=off GOSUMDB=off GOTOOLCHAIN=local CGO_ENABLED=0
mkdir -p bin evidence replays
for pkg in $(ls checks); do
  if ls checks/$pkg/*_test.go >/dev/null 2>&1; then
    go test -c -tags verif -o bin/$pkg.test ./checks/$pkg/
  fi
done
echo "setup ok"
