#!/bin/bash
# usage: stress.sh <seed> [tier]  -- runs all checks concurrently (oversubscribed machine) and reports exits
seed=${1:-1}; tier=${2:-quick}
mkdir -p /tmp/stress
pids=()
for p in C01 C02 C03 C04 C05 C06 C07 C08 C09 C10 C11 C12 C13 C14 C15 C16 C17 C18 C19 C20; do
  ( VERIF_SEED=$seed ./check $p --tier $tier > /tmp/stress/$p.$seed.out 2>&1; echo "$p exit=$?" >> /tmp/stress/summary.$seed ) &
done
wait
sort /tmp/stress/summary.$seed | grep -v "exit=0" ; echo "seed $seed done: $(grep -c 'exit=0' /tmp/stress/summary.$seed)/20 ok"
