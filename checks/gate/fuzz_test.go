package gate

import (
	"strings"
	"testing"

	"verif/harness/choose"
	"verif/harness/ev"
	"verif/harness/run"
)

var c09fStats = ev.New("C09", "c09fuzz")

// FuzzC09: byte strings decoded into gate scenarios (choose.Bytes), judged by the
// same firing-log oracle as the rapid check.
func FuzzC09(f *testing.F) {
	f.Add([]byte{})
	f.Add([]byte{50, 1, 0, 2, 0, 1, 1, 0, 0, 0, 0, 0})
	f.Add([]byte{0, 3, 1, 4, 3, 2, 1, 0, 2, 1, 0, 2, 0, 90, 0, 1, 3, 2, 5, 4, 3, 2, 1, 0, 0, 1, 2, 3})
	f.Fuzz(func(t *testing.T, data []byte) {
		c := &run.Ctx{Prop: "C09", Check: "c09fuzz", TB: t, St: c09fStats}
		c.Ch = choose.NewRecorder(&choose.Bytes{B: data})
		defer func() {
			if r := recover(); r != nil {
				if !run.IsCaseEnd(r) {
					panic(r)
				}
			}
		}()
		sc := genScenario(c.Ch, false)
		res := execute(sc)
		labels := map[string]bool{}
		if v := judge(sc, res, labels); v != nil {
			c.Failf(v.sig, "%s | scenario: %s", v.msg, strings.Join(describe(sc), " "))
		}
	})
}
