package gate

import (
	"fmt"
	"sort"
	"strings"
	"sync"
	"testing"
	"time"

	ogm "github.com/weedbox/pokertable/open_game_manager"

	"verif/harness/choose"
	"verif/harness/ev"
	"verif/harness/run"
)

func TestMain(m *testing.M) { run.Main(m) }

// gop is one pre-drawn gate operation. Scenarios are drawn completely before
// they run, so many of them can be executed side by side and real timeouts
// (1-2 s) are paid once per batch.
type gop struct {
	Kind  string // setup | ready | pause | rebuild | wait
	GC    int
	Parts map[string]int
	ID    string
	Ms    int
	// rebuild only: the timeout recorded in the saved state (HasSavedTO false = the configured one). A state
	// saved under another configuration, or without the field, must not change the gate's
	// timing: the configured timeout is the one the statement speaks of.
	HasSavedTO bool
	SavedTO    int
}

func (o gop) String() string {
	switch o.Kind {
	case "setup":
		return fmt.Sprintf("setup(%d,%s)", o.GC, fmtParts(o.Parts))
	case "ready":
		return "ready(" + o.ID + ")"
	case "pause", "wait":
		return fmt.Sprintf("%s(%dms)", o.Kind, o.Ms)
	case "rebuild":
		if o.HasSavedTO {
			return fmt.Sprintf("rebuild(saved timeout %d)", o.SavedTO)
		}
	}
	return o.Kind
}

func fmtParts(m map[string]int) string {
	ks := []string{}
	for k, v := range m {
		ks = append(ks, fmt.Sprintf("%s:%d", k, v))
	}
	sort.Strings(ks)
	return strings.Join(ks, " ")
}

type fire struct {
	At    time.Time
	Gen   int // manager generation (rebuilds)
	GC    int
	Parts map[string]ogm.OpenGameParticipant
}

type opRes struct {
	Op         gop
	T0, T1     time.Time
	Err        error
	StateEqual bool // GetState identical before/after (for refused signals)
	Gen        int
}

type scenario struct {
	Timeout int
	Ops     []gop
}

type result struct {
	Ops   []opRes
	Fires []fire
	End   time.Time
	Hung  string // a gate call that did not return within the guard time
}

// guardTime bounds a single gate call (they take microseconds): a call that does not come
// back - a mutex left locked on an error path, say - must become a verdict, not a hung shard.
const guardTime = 10 * time.Second

func guarded(f func()) bool {
	done := make(chan struct{})
	go func() { f(); close(done) }()
	select {
	case <-done:
		return true
	case <-time.After(guardTime):
		return false
	}
}

func copyState(st ogm.OpenGameState) map[string]ogm.OpenGameParticipant {
	out := map[string]ogm.OpenGameParticipant{}
	for id, p := range st.Participants {
		if p != nil {
			out[id] = *p
		}
	}
	return out
}

func stateString(st ogm.OpenGameState) string {
	ks := []string{}
	for id, p := range st.Participants {
		ks = append(ks, fmt.Sprintf("%s:%d:%v", id, p.Index, p.IsReady))
	}
	sort.Strings(ks)
	return fmt.Sprintf("gc=%d to=%d [%s]", st.GameCount, st.Timeout, strings.Join(ks, " "))
}

// execute runs a scenario against a real gate.
func execute(sc scenario) result {
	var mu sync.Mutex
	var res result
	gen := 0
	newOpts := func(g int) ogm.OpenGameOption {
		return ogm.OpenGameOption{Timeout: sc.Timeout, OnOpenGameReady: func(st ogm.OpenGameState) {
			mu.Lock()
			defer mu.Unlock()
			if g != gen {
				return // a gate that was replaced by a rebuild belongs to a dead process
			}
			res.Fires = append(res.Fires, fire{At: time.Now(), Gen: g, GC: st.GameCount, Parts: copyState(st)})
		}}
	}
	m := ogm.NewOpenGameManager(newOpts(0))
	curGC, curN, firesBefore := 0, 0, 0
	signalled := map[string]bool{}
	for _, o := range sc.Ops {
		r := opRes{Op: o, T0: time.Now()}
		switch o.Kind {
		case "setup":
			if mm := m; !guarded(func() { mm.Setup(o.GC, o.Parts) }) {
				res.Hung = o.String() + " did not return"
				res.End = time.Now()
				return res
			}
			curGC, curN, signalled = o.GC, len(o.Parts), map[string]bool{}
			mu.Lock()
			firesBefore = 0
			for _, f := range res.Fires {
				if f.GC == curGC {
					firesBefore++
				}
			}
			mu.Unlock()
		case "ready":
			var before, after string
			if mm := m; !guarded(func() {
				before = stateString(mm.GetState())
				r.Err = mm.Ready(o.ID)
				after = stateString(mm.GetState())
			}) {
				res.Hung = o.String() + " (or the GetState around it) did not return"
				res.End = time.Now()
				return res
			}
			r.StateEqual = before == after
			if r.Err == nil {
				signalled[o.ID] = true
			}
		case "pause", "wait":
			time.Sleep(time.Duration(o.Ms) * time.Millisecond)
		case "rebuild":
			st := m.GetState()
			// deep copy, as a persisted state would be
			saved := ogm.OpenGameState{Timeout: st.Timeout, GameCount: st.GameCount, Participants: map[string]*ogm.OpenGameParticipant{}}
			for id, p := range st.Participants {
				cp := *p
				saved.Participants[id] = &cp
			}
			if o.HasSavedTO {
				saved.Timeout = o.SavedTO
			}
			mu.Lock()
			gen++
			g := gen
			mu.Unlock()
			m = ogm.NewOpenGameManagerFromState(saved, newOpts(g))
		}
		mu.Lock()
		r.Gen = gen
		mu.Unlock()
		r.T1 = time.Now()
		res.Ops = append(res.Ops, r)
	}
	// the last set-up is complete (everybody signalled) but has not fired yet: give it a
	// generous, bounded time; on the correct gate this loop ends within microseconds, so the
	// bound is only ever spent on a gate that does not fire (judged as never-fired)
	if curN > 0 && len(signalled) == curN {
		for deadline := time.Now().Add(3 * time.Second); time.Now().Before(deadline); {
			mu.Lock()
			n := 0
			for _, f := range res.Fires {
				if f.GC == curGC {
					n++
				}
			}
			mu.Unlock()
			if n > firesBefore {
				break
			}
			time.Sleep(200 * time.Microsecond)
		}
	}
	// grace period: look for late or double firings
	time.Sleep(30 * time.Millisecond)
	mu.Lock()
	res.End = time.Now()
	fires := append([]fire(nil), res.Fires...)
	mu.Unlock()
	res.Fires = fires
	return res
}

type verdict struct{ sig, msg string }

// judge applies the C09 obligations to a finished scenario.
func judge(sc scenario, res result, labels map[string]bool) *verdict {
	if res.Hung != "" {
		done := []string{}
		for _, r := range res.Ops {
			done = append(done, r.Op.String())
		}
		return &verdict{"C09.call-never-returned", fmt.Sprintf("%s within %v; operations before it: %s", res.Hung, guardTime, strings.Join(done, " "))}
	}
	timeout := time.Duration(sc.Timeout) * time.Second
	margin := 1500 * time.Millisecond
	var otherTOFrom time.Time // a rebuild from a state that carries another timeout than the configuration
	// split into set-up lifetimes
	type life struct {
		gen       int // how many earlier set-ups used the same game count
		gc        int
		parts     map[string]int
		start     time.Time // set-up call began
		armed     time.Time // set-up call returned
		end       time.Time
		firstSig  map[string]time.Time
		dup       bool
		rebuilt   bool
		startSigs map[string]bool // already ready when (re)built
	}
	var lives []*life
	var cur *life
	seenGC := map[int]bool{}
	genOf := map[int]int{}
	for _, r := range res.Ops {
		switch r.Op.Kind {
		case "setup":
			if cur != nil {
				cur.end = r.T0
			}
			cur = &life{gc: r.Op.GC, gen: genOf[r.Op.GC], parts: r.Op.Parts, start: r.T0, armed: r.T1, firstSig: map[string]time.Time{}}
			if seenGC[r.Op.GC] {
				genOf[r.Op.GC]++
				cur.gen = genOf[r.Op.GC]
				labels["same_game_count_again"] = true
			}
			lives = append(lives, cur)
			seenGC[r.Op.GC] = true
		case "rebuild":
			if cur != nil {
				// same set-up continues on the rebuilt gate; its timeout restarts
				nl := &life{gc: cur.gc, gen: cur.gen, parts: cur.parts, start: r.T0, armed: r.T1, firstSig: cur.firstSig, rebuilt: true}
				cur.end = r.T0
				cur = nl
				lives = append(lives, nl)
				labels["rebuild"] = true
			}
			if r.Op.HasSavedTO && r.Op.SavedTO != sc.Timeout {
				labels["rebuild_saved_timeout_differs"] = true
				otherTOFrom = r.T0
			}
		case "ready":
			if cur == nil {
				if r.Err == nil {
					return &verdict{"C09.ready-before-setup-accepted", fmt.Sprintf("Ready(%s) before any set-up returned nil", r.Op.ID)}
				}
				continue
			}
			if _, known := cur.parts[r.Op.ID]; !known {
				labels["unknown"] = true
				if r.Err != ogm.ErrParticipantNotFound {
					return &verdict{"C09.unknown-not-rejected", fmt.Sprintf("Ready(%s) for an unknown participant returned %v", r.Op.ID, r.Err)}
				}
				if !r.StateEqual {
					return &verdict{"C09.unknown-changed-state", fmt.Sprintf("Ready(%s) for an unknown participant changed the state", r.Op.ID)}
				}
				continue
			}
			if r.Err != nil {
				return &verdict{"C09.known-rejected", fmt.Sprintf("Ready(%s) of an expected participant returned %v", r.Op.ID, r.Err)}
			}
			if _, again := cur.firstSig[r.Op.ID]; again {
				cur.dup = true
				labels["dup"] = true
			} else {
				cur.firstSig[r.Op.ID] = r.T0
			}
		}
	}
	if cur != nil {
		cur.end = res.End
	}
	// group lifetimes by game count (a rebuild continues the same set-up)
	// (a later set-up may use the game count of an earlier, already fired one: a generation of its own)
	type sid struct{ gc, gen int }
	byGC := map[sid][]*life{}
	order := []sid{}
	for _, l := range lives {
		k := sid{l.gc, l.gen}
		if _, ok := byGC[k]; !ok {
			order = append(order, k)
		}
		byGC[k] = append(byGC[k], l)
	}
	for _, f := range res.Fires {
		if !seenGC[f.GC] {
			return &verdict{"C09.fired-unknown-gamecount", fmt.Sprintf("callback reported game count %d which no set-up used", f.GC)}
		}
	}
	for _, key := range order {
		gc := key.gc
		ls := byGC[key]
		// this generation's window: from its set-up to the next set-up with the same game count
		var nextGen time.Time
		if nl, ok := byGC[sid{gc, key.gen + 1}]; ok {
			nextGen = nl[0].start
		}
		first, last := ls[0], ls[len(ls)-1]
		// A firing belongs to the generation whose participants it reports; only when several
		// generations of this game count name the same participants does the time decide. (The
		// moment a callback stamps itself can fall a few microseconds after the next set-up
		// call began, while that call was still waiting for the gate's mutex.)
		sameParts := func(a map[string]int, f fire) bool {
			if len(a) != len(f.Parts) {
				return false
			}
			for id, idx := range a {
				if p, ok := f.Parts[id]; !ok || p.Index != idx {
					return false
				}
			}
			return true
		}
		var fires []fire
		for _, f := range res.Fires {
			if f.GC != gc {
				continue
			}
			matching, mine := 0, false
			for g := 0; ; g++ {
				gl, ok := byGC[sid{gc, g}]
				if !ok {
					break
				}
				if sameParts(gl[0].parts, f) {
					matching++
					if g == key.gen {
						mine = true
					}
				}
			}
			if matching == 1 {
				if mine {
					fires = append(fires, f)
				}
				continue
			}
			if !f.At.Before(ls[0].start) && (nextGen.IsZero() || f.At.Before(nextGen)) {
				fires = append(fires, f)
			}
		}
		n := len(first.parts)
		all := len(last.firstSig) == n
		var lastSig time.Time
		for _, t := range last.firstSig {
			if t.After(lastSig) {
				lastSig = t
			}
		}
		if len(fires) > 1 {
			return &verdict{"C09.fired-twice", fmt.Sprintf("set-up %d (%s) fired %d times", gc, fmtParts(first.parts), len(fires))}
		}
		superseded := last.end.Before(res.End)
		if len(fires) == 1 {
			f := fires[0]
			// which lifetime was current when it fired
			var at *life
			for _, l := range ls {
				if !f.At.Before(l.start) {
					at = l
				}
			}
			if at == nil {
				return &verdict{"C09.fired-before-setup", fmt.Sprintf("set-up %d fired before it was made", gc)}
			}
			timedOut := sc.Timeout > 0 && f.At.Sub(at.start) >= timeout
			if !timedOut {
				if !all {
					missing := []string{}
					for id := range first.parts {
						if _, ok := last.firstSig[id]; !ok {
							missing = append(missing, id)
						}
					}
					sort.Strings(missing)
					return &verdict{"C09.fired-before-all-ready", fmt.Sprintf("set-up %d (%s) fired %v after arming, timeout %v, but %v never signalled", gc, fmtParts(first.parts), f.At.Sub(at.start), timeout, missing)}
				}
				if f.At.Before(lastSig) {
					return &verdict{"C09.fired-before-last-signal", fmt.Sprintf("set-up %d fired %v before its last missing signal was issued", gc, lastSig.Sub(f.At))}
				}
				labels["all_ready_fire"] = true
			} else {
				labels["timeout_fire"] = true
				if !otherTOFrom.IsZero() && !at.rebuilt && at.start.After(otherTOFrom) {
					labels["timeout_fire_of_setup_after_rebuild_with_other_saved_timeout"] = true
				}
			}
			if len(f.Parts) != n {
				return &verdict{"C09.report-participants", fmt.Sprintf("set-up %d (%s) reported participants %v", gc, fmtParts(first.parts), f.Parts)}
			}
			for id, idx := range first.parts {
				p, ok := f.Parts[id]
				if !ok || p.Index != idx || p.ID != id {
					return &verdict{"C09.report-participants", fmt.Sprintf("set-up %d (%s) reported participants %v", gc, fmtParts(first.parts), f.Parts)}
				}
				if !p.IsReady {
					return &verdict{"C09.report-not-ready", fmt.Sprintf("set-up %d reported participant %s as not ready", gc, id)}
				}
			}
			if superseded && f.At.After(last.end.Add(margin)) {
				return &verdict{"C09.superseded-fired", fmt.Sprintf("set-up %d fired %v after it had been superseded", gc, f.At.Sub(last.end))}
			}
			continue
		}
		// never fired: allowed only if it neither became complete nor timed out within its lifetime
		lifeSpan := last.end.Sub(last.start)
		if all && n > 0 && last.end.Sub(lastSig) > margin {
			return &verdict{"C09.never-fired", fmt.Sprintf("set-up %d (%s): every participant signalled, %v later nothing had fired (rebuilt=%v)", gc, fmtParts(first.parts), last.end.Sub(lastSig), last.rebuilt)}
		}
		if sc.Timeout > 0 && n > 0 && lifeSpan > timeout+margin {
			return &verdict{"C09.timeout-never-fired", fmt.Sprintf("set-up %d (%s): %v after arming with timeout %v nothing had fired (rebuilt=%v)", gc, fmtParts(first.parts), lifeSpan, timeout, last.rebuilt)}
		}
		if superseded && !all {
			labels["supersede_pending"] = true
		}
	}
	return nil
}

// genScenario draws a scenario. withWaits allows real timeout waits.
func genScenario(ch choose.Chooser, withWaits bool) scenario {
	var sc scenario
	if withWaits {
		sc.Timeout = ch.Int("timeout", 1, 2)
	} else {
		sc.Timeout = 0
		if choose.Chance(ch, "timeout.set", 50) {
			sc.Timeout = 2 // set but never reached (cases last milliseconds)
		}
	}
	gc := 0
	prevComplete := false
	otherTO := false
	nSetups := ch.Int("setups", 1, 4)
	for s := 0; s < nSetups; s++ {
		if s > 0 && prevComplete && choose.Chance(ch, "samegc", 12) {
			// the previous set-up completed (and was given time to fire): the same game count
			// is set up again, as a table does when its gate fired but no hand could open
			sc.Ops = append(sc.Ops, gop{Kind: "pause", Ms: 3})
		} else {
			gc += 1 + ch.Int("gcstep", 0, 3)
		}
		n := ch.Int("nparts", 1, 10)
		if choose.Chance(ch, "empty", 8) {
			// a set-up naming nobody: it supersedes whatever was pending; whether it fires itself is
			// not constrained (at most once). Stale signals of earlier participants follow it.
			n = 0
		}
		parts := map[string]int{}
		ids := []string{}
		perm := choose.Perm(ch, "idx", 12)
		for i := 0; i < n; i++ {
			id := fmt.Sprintf("u%d", i)
			parts[id] = perm[i]
			ids = append(ids, id)
		}
		sc.Ops = append(sc.Ops, gop{Kind: "setup", GC: gc, Parts: parts})
		if n == 0 {
			for i, m := 0, ch.Int("stale", 1, 3); i < m; i++ {
				sc.Ops = append(sc.Ops, gop{Kind: "ready", ID: fmt.Sprintf("u%d", ch.Int("stale.who", 0, 9))})
			}
			sc.Ops = append(sc.Ops, gop{Kind: "pause", Ms: 2})
			prevComplete = false
			continue
		}
		// signals: a drawn subset in a drawn order, with repetitions and unknown ids
		order := choose.Perm(ch, "order", n)
		k := n
		partialPct := 35
		if withWaits && otherTO {
			partialPct = 75 // let a set-up made on such a rebuilt gate run into its timeout
		}
		if s < nSetups-1 || choose.Chance(ch, "partial", partialPct) {
			k = ch.Int("subset", 0, n)
			if withWaits && otherTO && s == nSetups-1 && k == n {
				k = n - 1
			}
		}
		rebuildAt := -1
		rebuildPct := 25
		if withWaits {
			rebuildPct = 40
		}
		if k > 0 && choose.Chance(ch, "rebuild", rebuildPct) {
			rebuildAt = ch.Int("rebuild.at", 0, k-1)
		}
		for i := 0; i < k; i++ {
			if i == rebuildAt {
				op := gop{Kind: "rebuild"}
				if choose.Chance(ch, "rebuild.savedto", 60) {
					// the saved state carries another timeout than the configuration (saved under
					// an older configuration, or without the field)
					if sc.Timeout > 0 && choose.Chance(ch, "rebuild.savedto.zero", 40) {
						op.SavedTO = 0
					} else {
						op.SavedTO = 3 - sc.Timeout // 1 <-> 2; 3 when no timeout is configured
					}
					op.HasSavedTO = true
					otherTO = true
				}
				sc.Ops = append(sc.Ops, op)
			}
			if choose.Chance(ch, "unknown", 15) {
				sc.Ops = append(sc.Ops, gop{Kind: "ready", ID: "stranger"})
			}
			if i == k-1 && k == n && choose.Chance(ch, "pause.beforelast", 40) {
				// give a premature firing time to show itself before the last signal
				sc.Ops = append(sc.Ops, gop{Kind: "pause", Ms: 1 + ch.Int("pause.ms", 0, 3)})
			}
			sc.Ops = append(sc.Ops, gop{Kind: "ready", ID: ids[order[i]]})
			if choose.Chance(ch, "dup", 20) {
				sc.Ops = append(sc.Ops, gop{Kind: "ready", ID: ids[order[ch.Int("dup.who", 0, i)]]})
			}
		}
		if k == n && choose.Chance(ch, "settle", 50) {
			sc.Ops = append(sc.Ops, gop{Kind: "pause", Ms: 2})
		}
		prevComplete = k == n && rebuildAt < 0
		if withWaits && k < n && s == nSetups-1 {
			sc.Ops = append(sc.Ops, gop{Kind: "wait", Ms: sc.Timeout*1000 + 1700})
		} else if withWaits && k < n && choose.Chance(ch, "midwait", 30) {
			sc.Ops = append(sc.Ops, gop{Kind: "wait", Ms: sc.Timeout*1000 + 1700})
		}
	}
	if !withWaits {
		// let a completed last set-up fire within the observation window
		sc.Ops = append(sc.Ops, gop{Kind: "pause", Ms: 3})
	}
	return sc
}

func describe(sc scenario) []string {
	out := []string{fmt.Sprintf("timeout=%d", sc.Timeout)}
	for _, o := range sc.Ops {
		out = append(out, o.String())
	}
	return out
}

func classify(sc scenario, labels map[string]bool) (bool, string) {
	maxParts := 0
	kinds := []string{}
	for _, o := range sc.Ops {
		if o.Kind == "setup" && len(o.Parts) > maxParts {
			maxParts = len(o.Parts)
		}
		kinds = append(kinds, o.String())
	}
	labels[fmt.Sprintf("parts_%d", maxParts)] = true
	for _, o := range sc.Ops {
		if o.Kind == "setup" && len(o.Parts) == 0 {
			labels["empty_setup"] = true
		}
	}
	nontrivial := maxParts >= 2 && (labels["dup"] || labels["unknown"] || labels["supersede_pending"] || labels["timeout_fire"] || labels["rebuild"])
	return nontrivial, strings.Join(kinds, " ")
}

var c09Stats = ev.New("C09", "c09")

func c09Body(c *run.Ctx) {
	sc := genScenario(c.Ch, false)
	for _, l := range describe(sc) {
		c.Ch.Note("%s", l)
	}
	res := execute(sc)
	labels := map[string]bool{}
	if v := judge(sc, res, labels); v != nil {
		// a schedule-dependent failure may not recur: retry is done by rapid's shrinker, the script is saved anyway
		c.Failf(v.sig, "%s | scenario: %s", v.msg, strings.Join(describe(sc), " "))
	}
	nt, tr := classify(sc, labels)
	ls := []string{}
	for l := range labels {
		ls = append(ls, l)
	}
	c.St.Case(ls, nt, tr, func() interface{} { return describe(sc) })
}

func TestC09(t *testing.T) {
	run.Property(t, "C09", "c09", c09Stats, run.Scale(20, 200), c09Body)
}

// TestC09Timeouts runs scenarios with real timeout waits, side by side.
var c09tStats = ev.New("C09", "c09t")

type seededChooser struct{ r *choose.SplitMix }

func (s seededChooser) Int(label string, lo, hi int) int {
	if hi <= lo {
		return lo
	}
	return lo + s.r.Intn(hi-lo+1)
}

func TestC09Timeouts(t *testing.T) {
	defer c09tStats.Write()
	n := run.Scale(96, 1500)
	batch := 96
	seed := uint64(run.Seed())*7777 + uint64(run.Shard())*131
	for done := 0; done < n; done += batch {
		type item struct {
			sc  scenario
			rec *choose.Recorder
			res result
		}
		items := make([]*item, batch)
		var wg sync.WaitGroup
		for i := range items {
			rec := choose.NewRecorder(seededChooser{choose.NewSplitMix(seed + uint64(done+i))})
			it := &item{sc: genScenario(rec, true), rec: rec}
			items[i] = it
			wg.Add(1)
			go func() {
				defer wg.Done()
				it.res = execute(it.sc)
			}()
		}
		wg.Wait()
		for _, it := range items {
			labels := map[string]bool{"timeout_leg": true}
			v := judge(it.sc, it.res, labels)
			c := &run.Ctx{Prop: "C09", Check: "c09t", TB: t, St: c09tStats, Ch: it.rec}
			for _, l := range describe(it.sc) {
				it.rec.Note("%s", l)
			}
			if v != nil {
				func() {
					defer func() { recover() }()
					c.Failf(v.sig, "%s | scenario: %s", v.msg, strings.Join(describe(it.sc), " "))
				}()
				if t.Failed() {
					return
				}
				continue
			}
			nt, tr := classify(it.sc, labels)
			ls := []string{}
			for l := range labels {
				ls = append(ls, l)
			}
			sc := it.sc
			c09tStats.Case(ls, nt, tr, func() interface{} { return describe(sc) })
		}
	}
}
