package table

import (
	"fmt"
	"reflect"
	"testing"

	"github.com/weedbox/pokertable"

	"verif/harness/choose"
	"verif/harness/ev"
	"verif/harness/run"
	"verif/harness/sim"
)

var c14Stats = ev.New("C14", "c14")

type didChance struct {
	name        string
	did, chance func(g pokertable.TablePlayerGameStatistics) bool
}

var didChances = []didChance{
	{"vpip", func(g pokertable.TablePlayerGameStatistics) bool { return g.IsVPIP }, func(g pokertable.TablePlayerGameStatistics) bool { return g.IsVPIPChance }},
	{"pfr", func(g pokertable.TablePlayerGameStatistics) bool { return g.IsPFR }, func(g pokertable.TablePlayerGameStatistics) bool { return g.IsPFRChance }},
	{"ats", func(g pokertable.TablePlayerGameStatistics) bool { return g.IsATS }, func(g pokertable.TablePlayerGameStatistics) bool { return g.IsATSChance }},
	{"3b", func(g pokertable.TablePlayerGameStatistics) bool { return g.Is3B }, func(g pokertable.TablePlayerGameStatistics) bool { return g.Is3BChance }},
	{"ft3b", func(g pokertable.TablePlayerGameStatistics) bool { return g.IsFt3B }, func(g pokertable.TablePlayerGameStatistics) bool { return g.IsFt3BChance }},
	{"checkraise", func(g pokertable.TablePlayerGameStatistics) bool { return g.IsCheckRaise }, func(g pokertable.TablePlayerGameStatistics) bool { return g.IsCheckRaiseChance }},
	{"cbet", func(g pokertable.TablePlayerGameStatistics) bool { return g.IsCBet }, func(g pokertable.TablePlayerGameStatistics) bool { return g.IsCBetChance }},
	{"ftcb", func(g pokertable.TablePlayerGameStatistics) bool { return g.IsFtCB }, func(g pokertable.TablePlayerGameStatistics) bool { return g.IsFtCBChance }},
	{"showdown", func(g pokertable.TablePlayerGameStatistics) bool { return g.IsShowdownWinning }, func(g pokertable.TablePlayerGameStatistics) bool { return g.ShowdownWinningChance }},
}

func c14Body(c *run.Ctx) {
	nontrivial := false
	var hooks sim.Hooks
	// at every snapshot of a hand: did => chance, at most one 3-bet holder
	hooks.Event = func(s *sim.Sim, e *sim.Event) {
		if e.Table == nil || (e.Kind != "state" && e.Kind != "table") {
			return
		}
		n3b := 0
		for _, p := range e.Table.State.PlayerStates {
			g := p.GameStatistics
			for _, dc := range didChances {
				if dc.did(g) && !dc.chance(g) {
					c.Failf("C14.did-without-chance."+dc.name, "player %s has the %s flag without the matching chance flag (status %s): %+v", p.PlayerID, dc.name, e.Table.State.Status, g)
				}
			}
			if g.Is3B {
				n3b++
			}
			if g.RaiseTimes > g.ActionTimes {
				c.Failf("C14.raises-exceed-actions", "player %s: %d raises in %d actions", p.PlayerID, g.RaiseTimes, g.ActionTimes)
			}
		}
		if n3b > 1 {
			c.Failf("C14.two-3bet", "%d players hold the 3-bet flag", n3b)
		}
	}
	// actions the hand refuses (out of turn, or a kind that is not allowed now) must leave
	// every player's statistics as they were; an attempt the hand accepts after all is
	// counted like any other accepted action
	hooks.AtDecision = func(s *sim.Sim, d *sim.Decision) {
		if d.Kind != "turn" || !choose.Chance(c.Ch, "refused.try", 20) {
			return
		}
		statsOf := func() map[string]pokertable.TablePlayerGameStatistics {
			m := map[string]pokertable.TablePlayerGameStatistics{}
			for _, p := range s.TE.GetTable().State.PlayerStates {
				m[p.PlayerID] = p.GameStatistics
			}
			return m
		}
		cur := d.GS.GetPlayer(d.Cur)
		n := c.Ch.Int("refused.n", 1, 2)
		for i := 0; i < n; i++ {
			gi := d.Cur
			kinds := []string{}
			if choose.Chance(c.Ch, "refused.outofturn", 60) && len(d.M) > 1 {
				gi = (d.Cur + 1 + c.Ch.Int("refused.who", 0, len(d.M)-2)) % len(d.M)
				kinds = []string{"fold", "check", "call", "allin", "raise", "bet"}
			} else if cur != nil {
				for _, k := range []string{"fold", "check", "call", "raise", "bet"} {
					if !inList(cur.AllowedActions, k) {
						kinds = append(kinds, k)
					}
				}
			}
			if len(kinds) == 0 {
				continue
			}
			kind := kinds[c.Ch.Int("refused.kind", 0, len(kinds)-1)]
			before := statsOf()
			a := s.Submit(d.M[gi], gi, kind, d.GS.Status.CurrentWager+d.GS.Status.MiniBet, d)
			c.Ch.Note("  attempt %s %s by %s (turn of %s) -> %v", d.Round, kind, d.M[gi], d.M[d.Cur], a.Err)
			if a.Err == nil {
				// the hand took it: it counts (C10 judges whether it should have)
				s.Cur.Actions = append(s.Cur.Actions, a)
				s.Label("attempt_accepted")
				s.SkipAct = true
				return
			}
			s.Label("refused_attempt")
			if kind == "fold" {
				s.Label("refused_fold")
			}
			nontrivial = true
			after := statsOf()
			for id, b := range before {
				if !reflect.DeepEqual(b, after[id]) {
					c.Failf("C14.refused-action-changed-statistics", "hand %d %s: %s by %s was refused (%v; turn of %s, allowed there %v) but the statistics of %s changed: %+v -> %+v", s.Cur.N, d.Round, kind, d.M[gi], a.Err, d.M[d.Cur], cur.AllowedActions, id, b, after[id])
				}
			}
		}
	}
	hooks.Opened = func(s *sim.Sim, h *sim.Hand) {
		zero := pokertable.NewPlayerGameStatistics()
		for _, p := range h.Opened.State.PlayerStates {
			if !reflect.DeepEqual(p.GameStatistics, zero) {
				c.Failf("C14.not-cleared-at-open", "hand %d opens with statistics of %s not cleared: %+v", h.N, p.PlayerID, p.GameStatistics)
			}
		}
	}
	o := HistOpts{
		Gen:          sim.GenOpts{ShortStacks: 15, SitOutPct: 10, AnteePct: 25, DealerBlindPct: 5, MaxPlayers: 8, Rules: []int{6, 1}},
		MinHands:     1,
		MaxHands:     run.Scale(4, 8),
		BetweenOps:   2,
		BetweenPct:   30,
		Mem:          sim.MemOpts{NewPlayer: 3, JoinSitter: 1, Rebuy: 3, Leave: 1, KeepSitting: 20, MaxNewID: 12, TopupAnyone: true},
		RearmOnLeave: true,
	}
	o.AfterHand = func(s *sim.Sim, h *sim.Hand) {
		if h.SettledT == nil {
			return
		}
		// accepted submissions per player
		type cnt struct {
			actions, calls, checks int
			folded                 bool
			foldRound              string
		}
		acc := map[string]*cnt{}
		for _, id := range h.M {
			acc[id] = &cnt{}
		}
		raises, folds := 0, 0
		for _, a := range h.Actions {
			if a.Err != nil {
				continue
			}
			k := acc[a.PID]
			if k == nil {
				continue
			}
			switch a.Kind {
			case "fold", "check", "call", "bet", "raise", "allin":
				k.actions++
			}
			switch a.Kind {
			case "call":
				k.calls++
			case "check":
				k.checks++
			case "fold":
				k.folded = true
				k.foldRound = a.Round
				folds++
			case "raise", "bet":
				raises++
			}
		}
		for _, p := range h.SettledT.State.PlayerStates {
			k, part := acc[p.PlayerID]
			g := p.GameStatistics
			if !part {
				if !reflect.DeepEqual(g, pokertable.NewPlayerGameStatistics()) {
					c.Failf("C14.nonparticipant-stats", "player %s was not dealt in but has statistics %+v", p.PlayerID, g)
				}
				continue
			}
			if g.ActionTimes != k.actions {
				c.Failf("C14.action-times", "hand %d player %s: ActionTimes=%d, accepted wager actions=%d", h.N, p.PlayerID, g.ActionTimes, k.actions)
			}
			if g.CallTimes != k.calls {
				c.Failf("C14.call-times", "hand %d player %s: CallTimes=%d, accepted calls=%d", h.N, p.PlayerID, g.CallTimes, k.calls)
			}
			if g.CheckTimes != k.checks {
				c.Failf("C14.check-times", "hand %d player %s: CheckTimes=%d, accepted checks=%d", h.N, p.PlayerID, g.CheckTimes, k.checks)
			}
			if g.IsFold != k.folded {
				c.Failf("C14.fold-flag", "hand %d player %s: IsFold=%v, fold accepted=%v", h.N, p.PlayerID, g.IsFold, k.folded)
			}
			wantRound := ""
			if k.folded {
				wantRound = k.foldRound
			}
			if g.FoldRound != wantRound {
				c.Failf("C14.fold-round", "hand %d player %s: FoldRound=%q, fold accepted in %q", h.N, p.PlayerID, g.FoldRound, wantRound)
			}
			for _, dc := range didChances {
				if dc.did(g) {
					s.Label("did_" + dc.name)
					nontrivial = true
				}
				if dc.chance(g) {
					s.Label("chance_" + dc.name)
				}
			}
		}
		if raises > 0 && folds > 0 {
			nontrivial = true
		}
		// cleared before the next hand (fence sample)
		if h.After != nil {
			zero := pokertable.NewPlayerGameStatistics()
			for _, p := range h.After.State.PlayerStates {
				if !reflect.DeepEqual(p.GameStatistics, zero) {
					c.Failf("C14.not-cleared", "after hand %d statistics of %s are not cleared: %+v", h.N, p.PlayerID, p.GameStatistics)
				}
			}
		}
		s.Label(fmt.Sprintf("participants_%d", len(h.M)))
	}
	s := RunHistory(c, o, hooks, nil)
	c.St.Case(s.Labels(), nontrivial, traceOf(s), sampleOf(s))
}

func TestC14(t *testing.T) {
	run.Property(t, "C14", "c14", c14Stats, run.Scale(20, 200), c14Body)
}
