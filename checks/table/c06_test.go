package table

import (
	"fmt"
	"sort"
	"strings"
	"testing"

	"github.com/weedbox/pokertable"

	"verif/harness/choose"
	"verif/harness/ev"
	"verif/harness/run"
	"verif/harness/sim"
)

var c06Stats = ev.New("C06", "c06")

// stdOrder is the standard label order per number of position slots, written
// from common poker usage (independently of position.go).
func stdOrder(k int) []string {
	switch k {
	case 3:
		return []string{"dealer", "sb", "bb"}
	case 4:
		return []string{"dealer", "sb", "bb", "ug"}
	case 5:
		return []string{"dealer", "sb", "bb", "ug", "co"}
	case 6:
		return []string{"dealer", "sb", "bb", "ug", "hj", "co"}
	case 7:
		return []string{"dealer", "sb", "bb", "ug", "mp", "hj", "co"}
	case 8:
		return []string{"dealer", "sb", "bb", "ug", "ug2", "mp", "hj", "co"}
	case 9:
		return []string{"dealer", "sb", "bb", "ug", "ug2", "mp", "mp2", "hj", "co"}
	case 10:
		return []string{"dealer", "sb", "bb", "ug", "ug2", "ug3", "mp", "mp2", "hj", "co"}
	}
	return nil
}

// buttonsUsable: the known C04 findings produce button seats the label rule
// cannot be evaluated against; such hands are excluded (counted).
func buttonsUsable(t *pokertable.Table) bool {
	st := t.State
	n := len(st.SeatMap)
	d, sb, bb := st.CurrentDealerSeat, st.CurrentSBSeat, st.CurrentBBSeat
	if d < 0 || sb < 0 || bb < 0 || d >= n || sb >= n || bb >= n {
		return false
	}
	dealt := 0
	for _, p := range st.PlayerStates {
		if p.IsParticipated {
			dealt++
		}
	}
	if dealt >= 3 && (d == sb || d == bb || sb == bb) {
		return false
	}
	if dealt == 2 && (d != sb || d == bb) {
		return false
	}
	return true
}

func labelsString(t *pokertable.Table) string {
	parts := []string{}
	for _, p := range t.State.PlayerStates {
		parts = append(parts, fmt.Sprintf("%s@%d%v(in-hand=%v)", p.PlayerID, p.Seat, p.Positions, p.IsParticipated))
	}
	return fmt.Sprintf("D=%d SB=%d BB=%d %s", t.State.CurrentDealerSeat, t.State.CurrentSBSeat, t.State.CurrentBBSeat, strings.Join(parts, " "))
}

// checkLabels applies predicates (1)-(4) to an opened snapshot.
func checkLabels(t *pokertable.Table) (string, string, map[string]bool) {
	st := t.State
	n := len(st.SeatMap)
	labels := map[string]bool{}
	d, sb, bb := st.CurrentDealerSeat, st.CurrentSBSeat, st.CurrentBBSeat
	bySeat := map[int]*pokertable.TablePlayerState{}
	dealt := 0
	for _, p := range st.PlayerStates {
		if p.IsParticipated {
			bySeat[p.Seat] = p
			dealt++
		} else if len(p.Positions) != 0 {
			return "C06.label-on-non-participant", fmt.Sprintf("%s is not dealt in but has labels %v; %s", p.PlayerID, p.Positions, labelsString(t)), labels
		}
	}
	deadDealer := bySeat[d] == nil
	deadSB := bySeat[sb] == nil && sb != d
	k := dealt
	if deadDealer {
		k++
		labels["dead_dealer"] = true
	}
	if deadSB {
		k++
		labels["dead_sb"] = true
	}
	if deadDealer && deadSB {
		labels["both_dead"] = true
	}
	labels[fmt.Sprintf("k_%d", k)] = true
	labels[fmt.Sprintf("N_%d", n)] = true
	if dealt == 2 && k == 2 {
		labels["hu"] = true
	}
	if k != dealt {
		labels["k_ne_dealt"] = true
	}
	// (1) big blind
	if p := bySeat[bb]; p == nil || len(p.Positions) != 1 || p.Positions[0] != "bb" {
		return "C06.bb-label", fmt.Sprintf("the player in the big-blind seat %d must be labelled exactly [bb]; %s", bb, labelsString(t)), labels
	}
	// (2) small blind / dealer
	has := func(p *pokertable.TablePlayerState, l string) bool {
		for _, x := range p.Positions {
			if x == l {
				return true
			}
		}
		return false
	}
	if p := bySeat[sb]; p != nil && !has(p, "sb") {
		return "C06.sb-label", fmt.Sprintf("the dealt-in player in the small-blind seat %d must be labelled sb; %s", sb, labelsString(t)), labels
	}
	if p := bySeat[d]; p != nil && !has(p, "dealer") {
		return "C06.dealer-label", fmt.Sprintf("the dealt-in player in the dealer seat %d must be labelled dealer; %s", d, labelsString(t)), labels
	}
	// (3) everybody dealt in has a label, no label twice
	seen := map[string]string{}
	for _, p := range st.PlayerStates {
		if !p.IsParticipated {
			continue
		}
		if len(p.Positions) == 0 {
			return "C06.no-label", fmt.Sprintf("%s is dealt in but has no label; %s", p.PlayerID, labelsString(t)), labels
		}
		for _, l := range p.Positions {
			if other, dup := seen[l]; dup {
				return "C06.label-twice", fmt.Sprintf("label %s held by %s and %s; %s", l, other, p.PlayerID, labelsString(t)), labels
			}
			seen[l] = p.PlayerID
		}
	}
	// (4) order clockwise from the big blind
	var want [][]string
	if k == 2 {
		want = [][]string{{"bb"}, {"dealer", "sb"}}
	} else {
		std := stdOrder(k)
		if std == nil {
			return "C06.slots", fmt.Sprintf("%d position slots; %s", k, labelsString(t)), labels
		}
		// rotate to start at bb
		rot := append(append([]string{}, std[2:]...), std[:2]...)
		for _, l := range rot {
			if (l == "dealer" && deadDealer) || (l == "sb" && deadSB) {
				continue
			}
			want = append(want, []string{l})
		}
	}
	var got [][]string
	for i := 0; i < n; i++ {
		seat := (bb + i) % n
		if p := bySeat[seat]; p != nil {
			got = append(got, p.Positions)
		}
	}
	norm := func(x [][]string) string {
		parts := []string{}
		for _, ls := range x {
			c := append([]string(nil), ls...)
			sort.Strings(c)
			parts = append(parts, strings.Join(c, "+"))
		}
		return strings.Join(parts, " ")
	}
	if norm(got) != norm(want) {
		return "C06.label-order", fmt.Sprintf("labels clockwise from the big blind are [%s], standard order for %d slots (dead dealer=%v, dead sb=%v) is [%s]; %s", norm(got), k, deadDealer, deadSB, norm(want), labelsString(t)), labels
	}
	return "", "", labels
}

func c06Body(c *run.Ctx) {
	nontrivial := false
	var hooks sim.Hooks
	usable := true
	firstChecked := false
	hooks.Opened = func(s *sim.Sim, h *sim.Hand) {
		firstChecked = false
		usable = buttonsUsable(h.Opened)
		if !usable {
			// everything after such a hand builds on button seats the rule calls invalid
			c.St.Exclude("history reached button seats of a known C04 finding", 1)
			c.St.Case(append(s.Labels(), "excluded_c04_known"), false, "", nil)
			c.End()
		}
		sig, msg, labels := checkLabels(h.Opened)
		for l := range labels {
			s.Label(l)
		}
		if sig != "" {
			st := h.Opened.State
			if !strictlyBetween(st.CurrentDealerSeat, st.CurrentBBSeat, st.CurrentSBSeat, len(st.SeatMap)) && st.CurrentDealerSeat != st.CurrentSBSeat {
				// the big blind jumped past the previous small-blind seat: the dead-button rule
				// (C04) yields button seats whose small blind does not lie between dealer and
				// big blind; no labelling can agree with them (recorded finding)
				sig = "C06.labels-vs-buttons.sb-not-between-dealer-and-bb"
			}
			c.Failf(sig, "hand %d: %s", h.N, msg)
		}
		if labels["dead_dealer"] || labels["dead_sb"] || labels["k_ne_dealt"] {
			nontrivial = true
		}
		for _, p := range h.Opened.State.PlayerStates {
			if !p.IsParticipated && p.IsIn {
				// a seated player not dealt in between the blinds
				s.Label("sitout_or_waiting_present")
			}
		}
	}
	hooks.Event = func(s *sim.Sim, e *sim.Event) {
		if !usable || firstChecked || s.Cur == nil || s.Cur.Opened == nil || e.Kind != "state" || e.Table == nil || e.Table.State.GameState == nil {
			return
		}
		firstChecked = true
		// (5) the hand engine received the same labels
		t := e.Table
		gs := t.State.GameState
		anyDealer := false
		for _, p := range s.Cur.Opened.State.PlayerStates {
			if p.IsParticipated {
				for _, l := range p.Positions {
					if l == "dealer" {
						anyDealer = true
					}
				}
			}
		}
		for i, gp := range gs.Players {
			if i >= len(s.Cur.M) {
				break
			}
			tp := sim.FindPlayer(s.Cur.Opened, s.Cur.M[i])
			want := append([]string(nil), tp.Positions...)
			got := append([]string(nil), gp.Positions...)
			if i == 0 && !anyDealer {
				// the mechanism guarantees a dealer label on the first entry
				filtered := got[:0]
				for _, l := range got {
					if l != "dealer" {
						filtered = append(filtered, l)
					}
				}
				got = filtered
			}
			sort.Strings(want)
			sort.Strings(got)
			if strings.Join(want, ",") != strings.Join(got, ",") {
				c.Failf("C06.engine-labels", "hand %d: entry %d (%s) has labels %v at the table and %v in the hand engine", s.Cur.N, i, s.Cur.M[i], tp.Positions, gp.Positions)
			}
		}
	}
	o := HistOpts{
		Gen:          sim.GenOpts{ShortStacks: 45, SitOutPct: 25, ViaCreatePct: 20, RandomSeatPct: 10, AnteePct: 20, Rules: []int{1, 0}},
		MinHands:     2,
		MaxHands:     run.Scale(7, 14),
		BetweenOps:   3,
		BetweenPct:   65,
		Mem:          sim.MemOpts{NewPlayer: 4, NewRandom: 1, JoinSitter: 2, Rebuy: 3, Leave: 5, KeepSitting: 30, MaxNewID: 14, TopupAnyone: true},
		RearmOnLeave: true,
	}
	o.AfterHand = func(s *sim.Sim, h *sim.Hand) {
		if h.SettledT == nil {
			return
		}
		// (6) next-BB order: players with chips, clockwise from the seat after the big blind
		t := h.SettledT
		n := len(t.State.SeatMap)
		want := []string{}
		for i := 1; i <= n; i++ {
			seat := (t.State.CurrentBBSeat + i) % n
			idx := t.State.SeatMap[seat]
			if idx >= 0 && t.State.PlayerStates[idx].Bankroll > 0 {
				want = append(want, t.State.PlayerStates[idx].PlayerID)
			}
		}
		if t.State.CurrentBBSeat >= 0 && strings.Join(want, ",") != strings.Join(t.State.NextBBOrderPlayerIDs, ",") {
			c.Failf("C06.next-bb-order", "hand %d: next big-blind order %v, players with chips clockwise after the big blind (seat %d): %v; %s", h.N, t.State.NextBBOrderPlayerIDs, t.State.CurrentBBSeat, want, tableSummary(t))
		}
		s.Label("next_bb_checked")
	}
	s := RunHistory(c, o, hooks, nil)
	c.St.Case(s.Labels(), nontrivial, traceOf(s), sampleOf(s))
}

var c06pStats = ev.New("C06", "c06p")

// TestC06Pinned keeps the recorded finding (labels vs. degenerate button seats)
// demonstrated with a directed history: 5 seats, A@0 B@1 C@2; in a hand with D=1
// SB=2 BB=0 both short stacks B and C go all-in and lose to A while two newcomers
// sit in at seats 3 and 4; the next hand has D=2 SB=0 BB=3 (the big blind jumped
// past the previous small-blind seat). The initial button is random: retried.
func TestC06Pinned(t *testing.T) {
	defer c06pStats.Write()
	const sig = "C06.labels-vs-buttons.sb-not-between-dealer-and-bb"
	if run.IsKnown("C06", sig) == nil {
		return
	}
	for attempt := 0; attempt < 60; attempt++ {
		c := &run.Ctx{Prop: "C06", Check: "c06p", TB: t, St: c06pStats}
		c.Ch = choose.NewRecorder(choose.NewScriptChooser(nil))
		demonstrated := false
		func() {
			defer func() {
				if r := recover(); r != nil {
					if fmt.Sprint(r) != "{}" {
						panic(r)
					}
				}
			}()
			cfg := sim.Config{Seats: 5, Rule: pokertable.CompetitionRule_Default, Mode: pokertable.CompetitionMode_CT, MinPlayers: 2,
				Blind:   pokertable.TableBlindState{Level: 1, SB: 2, BB: 4},
				Players: []sim.PlayerSpec{{ID: "A", Seat: 0, Chips: 1000, Join: true}, {ID: "B", Seat: 1, Chips: 30, Join: true}, {ID: "C", Seat: 2, Chips: 30, Join: true}}}
			var hooks sim.Hooks
			arrived := false
			hooks.Deck = func(s *sim.Sim, n int, short bool) []string {
				m := sim.GameIDs(s.TE.GetTable()) // (runs inside CreateGame: the driver has not recorded the list yet)
				if len(s.Hands) != 1 || n != 3 || len(m) != 3 {
					return nil
				}
				// hole cards in game-index order; A gets the aces
				holes := map[string][]string{"A": {"SA", "HA"}, "B": {"S2", "H3"}, "C": {"D4", "C6"}}
				deck := []string{}
				used := map[string]bool{}
				for _, id := range m {
					deck = append(deck, holes[id]...)
				}
				deck = append(deck, "C2", "DK", "CQ", "H9", "C3", "S8", "C4", "D7")
				for _, c := range deck {
					used[c] = true
				}
				for _, su := range []string{"S", "H", "D", "C"} {
					for _, pt := range []string{"2", "3", "4", "5", "6", "7", "8", "9", "T", "J", "Q", "K", "A"} {
						if !used[su+pt] {
							deck = append(deck, su+pt)
						}
					}
				}
				return deck
			}
			hooks.Temper = func(s *sim.Sim, h *sim.Hand) int { return sim.TemperShove }
			hooks.AtDecision = func(s *sim.Sim, d *sim.Decision) {
				if d.Kind == "turn" && len(s.Hands) == 1 {
					// scripted line: the short stacks shove, A calls (the harness plays the turn itself)
					p := d.GS.GetPlayer(d.Cur)
					want := []string{"pass", "allin"}
					if d.Asked[0] == "A" {
						want = []string{"pass", "call", "check", "allin"}
					}
					for _, k := range want {
						if inList(p.AllowedActions, k) {
							if err := s.Do(d.Asked[0], k, 0); err == nil {
								s.SkipAct = true
							}
							break
						}
					}
				}
				if !arrived && len(s.Hands) == 1 {
					arrived = true
					s.Reserve("N1", 3, 500, "valid")
					s.Join("N1", "valid")
					s.Reserve("N2", 4, 500, "valid")
					s.Join("N2", "valid")
				}
			}
			hooks.Opened = func(s *sim.Sim, h *sim.Hand) {
				if h.N == 1 {
					st := h.Opened.State
					if !(st.CurrentDealerSeat == 1 && st.CurrentSBSeat == 2 && st.CurrentBBSeat == 0) {
						s.Stall = "other initial button"
					}
					return
				}
				sigGot, msg, _ := checkLabels(h.Opened)
				st := h.Opened.State
				if sigGot != "" && !strictlyBetween(st.CurrentDealerSeat, st.CurrentBBSeat, st.CurrentSBSeat, len(st.SeatMap)) && st.CurrentDealerSeat != st.CurrentSBSeat {
					demonstrated = true
					c.Failf(sig, "pinned history, hand %d: %s", h.N, msg)
				}
			}
			s := sim.New(c.Ch, cfg, hooks)
			defer s.Finish()
			if s.CreateErr != nil || !s.StartFirst(nil) {
				return
			}
			h1 := s.PlayHand(s.PlanSignals(0))
			if s.Stall != "" || s.GateArmed == nil {
				c06pStats.Label("pinned_attempt_ended: "+s.Stall+" "+h1.Outcome, 1)
				return
			}
			s.PlayHand(s.PlanSignals(0))
			c06pStats.Label("pinned_attempt_second_hand_played", 1)
		}()
		_ = demonstrated
		for _, k := range c06pStats.Known {
			if strings.HasSuffix(k, "["+sig+"]") {
				c06pStats.Add("pinned_attempts_until_demonstrated", int64(attempt+1))
				c06pStats.Case([]string{"pinned"}, true, "pinned-c06", func() interface{} {
					return "directed history: A@0 B@1 C@2, D=1 SB=2 BB=0, B and C bust, N1@3 N2@4 arrive -> D=2 SB=0 BB=3"
				})
				return
			}
		}
	}
	c06pStats.Add("pinned_not_demonstrated", 1)
}

func TestC06(t *testing.T) {
	run.Property(t, "C06", "c06", c06Stats, run.Scale(20, 200), c06Body)
}
