package table

import (
	"fmt"
	"sort"
	"strings"
	"testing"

	"github.com/weedbox/pokertable"

	"verif/harness/ev"
	"verif/harness/run"
	"verif/harness/sim"
)

var c06Stats = ev.New("C06", "c06")

// stdOrder is the standard label order per number of position slots, written
// from common poker usage (independently of position.go).
func stdOrder(k int) []string {
	switch k {
	case 3:
		return []string{"dealer", "sb", "bb"}
	case 4:
		return []string{"dealer", "sb", "bb", "ug"}
	case 5:
		return []string{"dealer", "sb", "bb", "ug", "co"}
	case 6:
		return []string{"dealer", "sb", "bb", "ug", "hj", "co"}
	case 7:
		return []string{"dealer", "sb", "bb", "ug", "mp", "hj", "co"}
	case 8:
		return []string{"dealer", "sb", "bb", "ug", "ug2", "mp", "hj", "co"}
	case 9:
		return []string{"dealer", "sb", "bb", "ug", "ug2", "mp", "mp2", "hj", "co"}
	case 10:
		return []string{"dealer", "sb", "bb", "ug", "ug2", "ug3", "mp", "mp2", "hj", "co"}
	}
	return nil
}

// buttonsUsable: the known C04 findings produce button seats the label rule
// cannot be evaluated against; such hands are excluded (counted).
func buttonsUsable(t *pokertable.Table) bool {
	st := t.State
	n := len(st.SeatMap)
	d, sb, bb := st.CurrentDealerSeat, st.CurrentSBSeat, st.CurrentBBSeat
	if d < 0 || sb < 0 || bb < 0 || d >= n || sb >= n || bb >= n {
		return false
	}
	dealt := 0
	for _, p := range st.PlayerStates {
		if p.IsParticipated {
			dealt++
		}
	}
	if dealt >= 3 && (d == sb || d == bb || sb == bb) {
		return false
	}
	if dealt == 2 && (d != sb || d == bb) {
		return false
	}
	return true
}

func labelsString(t *pokertable.Table) string {
	parts := []string{}
	for _, p := range t.State.PlayerStates {
		parts = append(parts, fmt.Sprintf("%s@%d%v(in-hand=%v)", p.PlayerID, p.Seat, p.Positions, p.IsParticipated))
	}
	return fmt.Sprintf("D=%d SB=%d BB=%d %s", t.State.CurrentDealerSeat, t.State.CurrentSBSeat, t.State.CurrentBBSeat, strings.Join(parts, " "))
}

// checkLabels applies predicates (1)-(4) to an opened snapshot.
func checkLabels(t *pokertable.Table) (string, string, map[string]bool) {
	st := t.State
	n := len(st.SeatMap)
	labels := map[string]bool{}
	d, sb, bb := st.CurrentDealerSeat, st.CurrentSBSeat, st.CurrentBBSeat
	bySeat := map[int]*pokertable.TablePlayerState{}
	dealt := 0
	for _, p := range st.PlayerStates {
		if p.IsParticipated {
			bySeat[p.Seat] = p
			dealt++
		} else if len(p.Positions) != 0 {
			return "C06.label-on-non-participant", fmt.Sprintf("%s is not dealt in but has labels %v; %s", p.PlayerID, p.Positions, labelsString(t)), labels
		}
	}
	deadDealer := bySeat[d] == nil
	deadSB := bySeat[sb] == nil && sb != d
	k := dealt
	if deadDealer {
		k++
		labels["dead_dealer"] = true
	}
	if deadSB {
		k++
		labels["dead_sb"] = true
	}
	if deadDealer && deadSB {
		labels["both_dead"] = true
	}
	labels[fmt.Sprintf("k_%d", k)] = true
	labels[fmt.Sprintf("N_%d", n)] = true
	if dealt == 2 && k == 2 {
		labels["hu"] = true
	}
	if k != dealt {
		labels["k_ne_dealt"] = true
	}
	// (1) big blind
	if p := bySeat[bb]; p == nil || len(p.Positions) != 1 || p.Positions[0] != "bb" {
		return "C06.bb-label", fmt.Sprintf("the player in the big-blind seat %d must be labelled exactly [bb]; %s", bb, labelsString(t)), labels
	}
	// (2) small blind / dealer
	has := func(p *pokertable.TablePlayerState, l string) bool {
		for _, x := range p.Positions {
			if x == l {
				return true
			}
		}
		return false
	}
	if p := bySeat[sb]; p != nil && !has(p, "sb") {
		return "C06.sb-label", fmt.Sprintf("the dealt-in player in the small-blind seat %d must be labelled sb; %s", sb, labelsString(t)), labels
	}
	if p := bySeat[d]; p != nil && !has(p, "dealer") {
		return "C06.dealer-label", fmt.Sprintf("the dealt-in player in the dealer seat %d must be labelled dealer; %s", d, labelsString(t)), labels
	}
	// (3) everybody dealt in has a label, no label twice
	seen := map[string]string{}
	for _, p := range st.PlayerStates {
		if !p.IsParticipated {
			continue
		}
		if len(p.Positions) == 0 {
			return "C06.no-label", fmt.Sprintf("%s is dealt in but has no label; %s", p.PlayerID, labelsString(t)), labels
		}
		for _, l := range p.Positions {
			if other, dup := seen[l]; dup {
				return "C06.label-twice", fmt.Sprintf("label %s held by %s and %s; %s", l, other, p.PlayerID, labelsString(t)), labels
			}
			seen[l] = p.PlayerID
		}
	}
	// (4) order clockwise from the big blind
	var want [][]string
	if k == 2 {
		want = [][]string{{"bb"}, {"dealer", "sb"}}
	} else {
		std := stdOrder(k)
		if std == nil {
			return "C06.slots", fmt.Sprintf("%d position slots; %s", k, labelsString(t)), labels
		}
		// rotate to start at bb
		rot := append(append([]string{}, std[2:]...), std[:2]...)
		for _, l := range rot {
			if (l == "dealer" && deadDealer) || (l == "sb" && deadSB) {
				continue
			}
			want = append(want, []string{l})
		}
	}
	var got [][]string
	for i := 0; i < n; i++ {
		seat := (bb + i) % n
		if p := bySeat[seat]; p != nil {
			got = append(got, p.Positions)
		}
	}
	norm := func(x [][]string) string {
		parts := []string{}
		for _, ls := range x {
			c := append([]string(nil), ls...)
			sort.Strings(c)
			parts = append(parts, strings.Join(c, "+"))
		}
		return strings.Join(parts, " ")
	}
	if norm(got) != norm(want) {
		return "C06.label-order", fmt.Sprintf("labels clockwise from the big blind are [%s], standard order for %d slots (dead dealer=%v, dead sb=%v) is [%s]; %s", norm(got), k, deadDealer, deadSB, norm(want), labelsString(t)), labels
	}
	return "", "", labels
}

// c06Tune lets the pinned search steer the generator towards the recorded finding.
var c06Tune func(o *HistOpts)

func c06Body(c *run.Ctx) {
	nontrivial := false
	var hooks sim.Hooks
	usable := true
	firstChecked := false
	hooks.Opened = func(s *sim.Sim, h *sim.Hand) {
		firstChecked = false
		usable = buttonsUsable(h.Opened)
		if !usable {
			// everything after such a hand builds on button seats the rule calls invalid
			c.St.Exclude("history reached button seats of a known C04 finding", 1)
			c.St.Case(append(s.Labels(), "excluded_c04_known"), false, "", nil)
			c.End()
		}
		sig, msg, labels := checkLabels(h.Opened)
		for l := range labels {
			s.Label(l)
		}
		if sig != "" {
			st := h.Opened.State
			if !strictlyBetween(st.CurrentDealerSeat, st.CurrentBBSeat, st.CurrentSBSeat, len(st.SeatMap)) && st.CurrentDealerSeat != st.CurrentSBSeat {
				// the big blind jumped past the previous small-blind seat: the dead-button rule
				// (C04) yields button seats whose small blind does not lie between dealer and
				// big blind; no labelling can agree with them (recorded finding)
				sig = "C06.labels-vs-buttons.sb-not-between-dealer-and-bb"
			}
			c.Failf(sig, "hand %d: %s", h.N, msg)
		}
		if labels["dead_dealer"] || labels["dead_sb"] || labels["k_ne_dealt"] {
			nontrivial = true
		}
		for _, p := range h.Opened.State.PlayerStates {
			if !p.IsParticipated && p.IsIn {
				// a seated player not dealt in between the blinds
				s.Label("sitout_or_waiting_present")
			}
		}
	}
	hooks.Event = func(s *sim.Sim, e *sim.Event) {
		if !usable || firstChecked || s.Cur == nil || s.Cur.Opened == nil || e.Kind != "state" || e.Table == nil || e.Table.State.GameState == nil {
			return
		}
		firstChecked = true
		// (5) the hand engine received the same labels
		t := e.Table
		gs := t.State.GameState
		anyDealer := false
		for _, p := range s.Cur.Opened.State.PlayerStates {
			if p.IsParticipated {
				for _, l := range p.Positions {
					if l == "dealer" {
						anyDealer = true
					}
				}
			}
		}
		for i, gp := range gs.Players {
			if i >= len(s.Cur.M) {
				break
			}
			tp := sim.FindPlayer(s.Cur.Opened, s.Cur.M[i])
			want := append([]string(nil), tp.Positions...)
			got := append([]string(nil), gp.Positions...)
			if i == 0 && !anyDealer {
				// the mechanism guarantees a dealer label on the first entry
				filtered := got[:0]
				for _, l := range got {
					if l != "dealer" {
						filtered = append(filtered, l)
					}
				}
				got = filtered
			}
			sort.Strings(want)
			sort.Strings(got)
			if strings.Join(want, ",") != strings.Join(got, ",") {
				c.Failf("C06.engine-labels", "hand %d: entry %d (%s) has labels %v at the table and %v in the hand engine", s.Cur.N, i, s.Cur.M[i], tp.Positions, gp.Positions)
			}
		}
	}
	o := HistOpts{
		Gen:          sim.GenOpts{ShortStacks: 45, SitOutPct: 25, ViaCreatePct: 20, RandomSeatPct: 10, AnteePct: 20, Rules: []int{1, 0}},
		MinHands:     2,
		MaxHands:     run.Scale(7, 14),
		BetweenOps:   3,
		BetweenPct:   65,
		Mem:          sim.MemOpts{NewPlayer: 4, NewRandom: 1, JoinSitter: 2, Rebuy: 3, Leave: 5, KeepSitting: 30, MaxNewID: 14, TopupAnyone: true},
		RearmOnLeave: true,
	}
	o.AfterHand = func(s *sim.Sim, h *sim.Hand) {
		if h.SettledT == nil {
			return
		}
		// (6) next-BB order: players with chips, clockwise from the seat after the big blind
		t := h.SettledT
		n := len(t.State.SeatMap)
		want := []string{}
		for i := 1; i <= n; i++ {
			seat := (t.State.CurrentBBSeat + i) % n
			idx := t.State.SeatMap[seat]
			if idx >= 0 && t.State.PlayerStates[idx].Bankroll > 0 {
				want = append(want, t.State.PlayerStates[idx].PlayerID)
			}
		}
		if t.State.CurrentBBSeat >= 0 && strings.Join(want, ",") != strings.Join(t.State.NextBBOrderPlayerIDs, ",") {
			c.Failf("C06.next-bb-order", "hand %d: next big-blind order %v, players with chips clockwise after the big blind (seat %d): %v; %s", h.N, t.State.NextBBOrderPlayerIDs, t.State.CurrentBBSeat, want, tableSummary(t))
		}
		s.Label("next_bb_checked")
	}
	if c06Tune != nil {
		c06Tune(&o)
	}
	s := RunHistory(c, o, hooks, nil)
	c.St.Case(s.Labels(), nontrivial, traceOf(s), sampleOf(s))
}

var c06pStats = ev.New("C06", "c06p")

// TestC06Pinned keeps the recorded finding (labels vs. degenerate button seats) demonstrated.
func TestC06Pinned(t *testing.T) {
	c06Tune = func(o *HistOpts) {
		o.Gen.MinSeats, o.Gen.MaxSeats, o.Gen.MaxPlayers = 4, 6, 4
		o.Gen.ShortStacks, o.Gen.SitOutPct = 10, 0
		o.MinHands, o.MaxHands = 3, 6
		o.BetweenPct, o.BetweenOps = 95, 4
		o.Mem = sim.MemOpts{NewPlayer: 5, Leave: 6, KeepSitting: 0, MaxNewID: 8}
	}
	defer func() { c06Tune = nil }()
	run.Pinned(t, "C06", "c06p", c06pStats, "C06.labels-vs-buttons.sb-not-between-dealer-and-bb", 3000, c06Body)
}

func TestC06(t *testing.T) {
	run.Property(t, "C06", "c06", c06Stats, run.Scale(20, 200), c06Body)
}
