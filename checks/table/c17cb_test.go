package table

import (
	"fmt"
	"sort"
	"strings"
	"testing"
	"time"

	"verif/harness/ev"
	"verif/harness/run"
	"verif/harness/sim"
)

var c17cbStats = ev.New("C17", "c17cb")

// CreateTable through the Manager must wire every engine callback: the same generated
// scenario is run once on a bare engine with the callbacks registered by hand and once
// through Manager.CreateTable with the same callback set. The scenario is built to reach
// every callback kind the engine can fire without a fault: table / state / player-state /
// reserved / action / first-game, and - with a table duration of 1 s that is over when the
// hand ends - the auto-open-end notice of CT and cash tables. A kind that the bare engine
// delivers and the manager-created table does not is a forwarding defect.
func c17CallbacksBody(c *run.Ctx) {
	cfg := sim.GenConfig(c.Ch, sim.GenOpts{MaxPlayers: 4, AnteePct: 20, Modes: []int{1, 1, 0}})
	cfg.MaxDuration = 1
	for i := range cfg.Players {
		cfg.Players[i].Chips += 200 * (cfg.Blind.BB + cfg.Blind.Dealer + 1) // deep stacks: the first hand should not end the table
	}
	// the options given at creation must reach the engine unchanged: the continue interval
	// (0 or 1 s, drawn) shows as the time between the last hand's settlement and the
	// auto-open-end notice that follows the continue step
	cfg.Interval = c.Ch.Int("interval", 0, 1)
	contDelay := map[bool]time.Duration{}
	second := map[bool]bool{} // the run played a hand to settlement after the table's duration was over
	kindsOf := func(via bool) (map[string]int, string) {
		k := map[string]int{}
		var hooks sim.Hooks
		var settledAt time.Time
		hooks.Event = func(s *sim.Sim, e *sim.Event) {
			if e.Kind != "gate" {
				k[e.Kind]++
			}
			if e.Kind == "state" && e.Name == "GameSettled" {
				settledAt = e.At
			}
			if e.Kind == "gate" && !settledAt.IsZero() {
				// the continue step of a hand settled before the table's time was up
				if _, have := contDelay[via]; !have {
					contDelay[via] = e.At.Sub(settledAt)
				}
			}
		}
		cc := cfg
		cc.ViaManager = via
		s := sim.New(c.Ch, cc, hooks)
		defer s.Finish()
		if s.CreateErr != nil {
			c.Failf("C17.valid-setup-refused", "creating the table failed (via manager=%v): %v", via, s.CreateErr)
		}
		if len(sim.LivePlayers(s.Now())) < 2 {
			return nil, ""
		}
		if !s.StartFirst(nil) {
			c.Inconclusive("first set-up did not complete: %s", s.Stall)
		}
		// a first hand right away (its continue step runs at the configured interval) ...
		h := s.PlayHand(s.PlanSignals(0))
		if h.Outcome == "gate" && s.GateArmed != nil {
			time.Sleep(2100 * time.Millisecond) // ... and one after the table's duration (1 s, whole-second clock) is over
			h = s.PlayHand(s.PlanSignals(0))
			if h.Opened != nil && h.SettledT != nil {
				second[via] = true
			}
		}
		s.Drain()
		return k, h.Outcome
	}
	eng, outE := kindsOf(false)
	if eng == nil {
		c.St.Exclude("callbacks_not_startable", 1)
		return
	}
	mgr, outM := kindsOf(true)
	names := []string{}
	for kind := range eng {
		names = append(names, kind)
	}
	sort.Strings(names)
	for _, kind := range names {
		if kind == "autoend" && !(second[false] && second[true]) {
			// the two runs are different random hands: one of them may have paused after its
			// first hand (a bust) and never reached the hand that ends after the deadline
			c.St.Exclude("callbacks_time_up_hand_not_reached_in_both_runs", 1)
			continue
		}
		if mgr[kind] == 0 {
			c.Failf("C17.callback-not-forwarded."+kind, "%s table, same scenario: the bare engine delivered %d %q callbacks (hand ended: %s), the table created through the Manager none (hand ended: %s); engine %v, manager %v", cfg.Mode, eng[kind], kind, outE, outM, eng, mgr)
		}
	}
	de, okE := contDelay[false]
	dm, okM := contDelay[true]
	if okE && okM && !sim.Starved() {
		diff := dm - de
		if diff < 0 {
			diff = -diff
		}
		if diff > 700*time.Millisecond {
			c.Failf("C17.create-options-not-forwarded.continue-interval", "%s table created with GameContinueInterval %d: the next hand was set up %v after the settlement on the bare engine and after %v on the table created through the Manager", cfg.Mode, cfg.Interval, de, dm)
		}
	}
	labels := []string{"callbacks_" + string(cfg.Mode), fmt.Sprintf("continue_interval_%d", cfg.Interval)}
	for _, kind := range names {
		if kind == "autoend" && !(second[false] && second[true]) {
			continue
		}
		labels = append(labels, "callback_"+kind)
	}
	c.St.Case(labels, eng["autoend"] > 0 && second[true], fmt.Sprintf("%s:%s:%d", cfg.Mode, strings.Join(names, ","), len(cfg.Players)), nil)
}

func TestC17Callbacks(t *testing.T) {
	run.Property(t, "C17", "c17cb", c17cbStats, run.Scale(3, 12), c17CallbacksBody)
}
