package table

import (
	"encoding/json"
	"fmt"
	"regexp"
	"sort"
	"strings"
	"testing"
	"time"

	"github.com/weedbox/pokertable"
	"github.com/weedbox/pokertable/seat_manager"

	"verif/harness/choose"
	"verif/harness/ev"
	"verif/harness/run"
	"verif/harness/sim"
)

// seatView is the comparable triple the statement talks about: seat map,
// player list, seat manager.
type seatView struct {
	N       int
	Table   string // normalised table JSON (without update_serial / update_at)
	SM      string // seat manager dump
	Players map[string]int
}

func smDump(sm seat_manager.SeatManager) string {
	seats := sm.Seats()
	keys := make([]int, 0, len(seats))
	for k := range seats {
		keys = append(keys, k)
	}
	sort.Ints(keys)
	var b strings.Builder
	for _, k := range keys {
		sp := seats[k]
		if sp == nil {
			continue
		}
		fmt.Fprintf(&b, "%d:%s in=%v chips=%v wait=%v;", k, sp.ID, sp.IsIn, sp.HasChips, sp.IsBetweenDealerBB)
	}
	fmt.Fprintf(&b, "|D%d SB%d BB%d init=%v", sm.CurrentDealerSeatID(), sm.CurrentSBSeatID(), sm.CurrentBBSeatID(), sm.IsInitPositions())
	return b.String()
}

func normTableJSON(t *pokertable.Table) string {
	c := *t
	c.UpdateSerial = 0
	c.UpdateAt = 0
	b, _ := json.Marshal(c)
	return string(b)
}

// lateAutoJoinOnly: two dumps (table JSON or seat-manager dump) differ at most in
// seated-in flags that went from false to true.
var inFlagRe = regexp.MustCompile(`("is_in":| in=)(true|false)`)

func lateAutoJoinOnly(before, after string) bool {
	if inFlagRe.ReplaceAllString(before, "${1}-") != inFlagRe.ReplaceAllString(after, "${1}-") {
		return false
	}
	b, a := inFlagRe.FindAllStringSubmatch(before, -1), inFlagRe.FindAllStringSubmatch(after, -1)
	if len(a) != len(b) {
		return false
	}
	for i := range b {
		if b[i][2] == "true" && a[i][2] == "false" {
			return false
		}
	}
	return true
}

// joinTouchedOwnFlag: a refused PlayerJoin after which the seated-in flag of the very
// player it names differs. Such a change is attributed to the refused call and never
// masked as a late auto-join; flags of players the call does not name (PlayerJoin of an
// unknown id while the auto-join callback of the others lands) are not its doing.
func joinTouchedOwnFlag(op *sim.OpRec) bool {
	if op.Kind != "join" {
		return false
	}
	if op.Before == nil || op.After == nil {
		return true
	}
	for _, id := range op.IDs {
		b, a := sim.FindPlayer(op.Before, id), sim.FindPlayer(op.After, id)
		if (b == nil) != (a == nil) || (b != nil && b.IsIn != a.IsIn) {
			return true
		}
	}
	return false
}

// consistency is part (i)+(ii) of the C03 oracle.
func seatConsistency(t *pokertable.Table, sm seat_manager.SeatManager) (string, string) {
	n := t.Meta.TableMaxSeatCount
	st := t.State
	if len(st.SeatMap) != n {
		return "C03.seatmap-len", fmt.Sprintf("seat map has %d entries for %d seats", len(st.SeatMap), n)
	}
	if len(st.PlayerStates) > n {
		return "C03.capacity", fmt.Sprintf("%d players on %d seats", len(st.PlayerStates), n)
	}
	seenID := map[string]int{}
	seenSeat := map[int]string{}
	for idx, p := range st.PlayerStates {
		if prev, dup := seenID[p.PlayerID]; dup {
			return "C03.player-twice", fmt.Sprintf("player %s appears twice in the player list (indexes %d and %d)", p.PlayerID, prev, idx)
		}
		seenID[p.PlayerID] = idx
		if p.Seat < 0 || p.Seat >= n {
			return "C03.seat-range", fmt.Sprintf("player %s has seat %d outside 0..%d", p.PlayerID, p.Seat, n-1)
		}
		if other, dup := seenSeat[p.Seat]; dup {
			return "C03.seat-twice", fmt.Sprintf("seat %d held by %s and %s", p.Seat, other, p.PlayerID)
		}
		seenSeat[p.Seat] = p.PlayerID
		if st.SeatMap[p.Seat] != idx {
			return "C03.seatmap-vs-list", fmt.Sprintf("player %s (index %d) sits at %d but seat map says index %d", p.PlayerID, idx, p.Seat, st.SeatMap[p.Seat])
		}
	}
	for seat, idx := range st.SeatMap {
		if idx == -1 {
			continue
		}
		if idx < 0 || idx >= len(st.PlayerStates) || st.PlayerStates[idx].Seat != seat {
			return "C03.seatmap-dangling", fmt.Sprintf("seat map entry %d -> index %d does not match the player list", seat, idx)
		}
	}
	// seat manager
	for seat, sp := range sm.Seats() {
		if seat < 0 || seat >= n {
			if sp != nil {
				return "C03.sm-seat-range", fmt.Sprintf("seat manager holds %s at seat %d outside 0..%d", sp.ID, seat, n-1)
			}
			return "C03.sm-key-range", fmt.Sprintf("seat manager has a seat key %d outside 0..%d", seat, n-1)
		}
		id, occupied := seenSeat[seat]
		if sp == nil {
			if occupied {
				return "C03.sm-missing", fmt.Sprintf("table has %s at seat %d, seat manager has it empty", id, seat)
			}
			continue
		}
		if !occupied {
			return "C03.sm-extra", fmt.Sprintf("seat manager has %s at seat %d, table has it empty", sp.ID, seat)
		}
		if sp.ID != id {
			return "C03.sm-occupant", fmt.Sprintf("seat %d: table says %s, seat manager says %s", seat, id, sp.ID)
		}
		if sp.IsIn != st.PlayerStates[seenID[id]].IsIn {
			return "C03.sm-isin", fmt.Sprintf("seat %d (%s): seated-in flag differs: table %v, seat manager %v", seat, id, st.PlayerStates[seenID[id]].IsIn, sp.IsIn)
		}
	}
	if len(sm.Seats()) != n {
		return "C03.sm-seatcount", fmt.Sprintf("seat manager has %d seat keys for %d seats", len(sm.Seats()), n)
	}
	return "", ""
}

// seatModel is the reference model: seat -> (id, seated-in).
type seatModel struct {
	n     int
	seat  map[string]int
	in    map[string]bool
	freed map[int]bool // seats vacated by a departure
}

func (m *seatModel) full() bool { return len(m.seat) >= m.n }
func (m *seatModel) taken(seat int) bool {
	for _, s := range m.seat {
		if s == seat {
			return true
		}
	}
	return false
}

func (m *seatModel) compare(t *pokertable.Table) (string, string) {
	got := map[string]int{}
	for _, p := range t.State.PlayerStates {
		got[p.PlayerID] = p.Seat
		// one direction only: the engine may seat a reserved player in by itself
		// (auto-join when the join group completes or after 17 s)
		if m.in[p.PlayerID] && !p.IsIn {
			if _, ok := m.seat[p.PlayerID]; ok {
				return "C03.model-isin", fmt.Sprintf("player %s joined successfully but is not seated-in", p.PlayerID)
			}
		}
	}
	for id, s := range m.seat {
		gs, ok := got[id]
		if !ok {
			return "C03.model-lost", fmt.Sprintf("player %s (seat %d in the model) is not at the table", id, s)
		}
		if gs != s {
			return "C03.model-seat", fmt.Sprintf("player %s sits at %d, model says %d", id, gs, s)
		}
	}
	for id := range got {
		if _, ok := m.seat[id]; !ok {
			return "C03.model-extra", fmt.Sprintf("player %s is at the table but no successful operation seated them", id)
		}
	}
	return "", ""
}

var c03Stats = ev.New("C03", "c03")

var pinnedMixedBatchDone bool

// c03Machine: stateful membership machine on one engine without hands.
func c03Body(c *run.Ctx) {
	n := c.Ch.Int("seats", 2, 10)
	rule := pokertable.CompetitionRule_Default
	if choose.Chance(c.Ch, "shortdeck", 15) {
		rule = pokertable.CompetitionRule_ShortDeck
	}
	cfg := sim.Config{Seats: n, Rule: rule, Mode: pokertable.CompetitionMode_CT, MinPlayers: 2, Blind: pokertable.TableBlindState{Level: 1, SB: 5, BB: 10}}
	// create-with-players variants
	model := &seatModel{n: n, seat: map[string]int{}, in: map[string]bool{}, freed: map[int]bool{}}
	labels := map[string]bool{fmt.Sprintf("N%d", n): true}
	trace := []string{fmt.Sprintf("N%d", n)}
	createKind := choose.Weighted(c.Ch, "create.kind", []int{6, 3, 1, 1, 1})
	switch createKind {
	case 1: // valid initial players through CreateTable
		k := c.Ch.Int("create.n", 1, n)
		perm := choose.Perm(c.Ch, "create.perm", n)
		for i := 0; i < k; i++ {
			cfg.Players = append(cfg.Players, sim.PlayerSpec{ID: sim.PlayerID(i), Seat: perm[i], Chips: 100})
			model.seat[sim.PlayerID(i)] = perm[i]
		}
		cfg.ViaCreate = true
		labels["create_with_players"] = true
	case 2, 3, 4:
		// invalid creation: too many / duplicate seat / duplicate id: must be refused
		var jps []pokertable.JoinPlayer
		class := ""
		switch createKind {
		case 2:
			for i := 0; i <= n; i++ {
				jps = append(jps, pokertable.JoinPlayer{PlayerID: sim.PlayerID(i), RedeemChips: 100, Seat: -1})
			}
			class = "create_too_many"
		case 3:
			jps = []pokertable.JoinPlayer{{PlayerID: "p00", RedeemChips: 100, Seat: 0}, {PlayerID: "p01", RedeemChips: 100, Seat: 0}}
			class = "create_dup_seat"
		case 4:
			jps = []pokertable.JoinPlayer{{PlayerID: "p00", RedeemChips: 100, Seat: 0}, {PlayerID: "p00", RedeemChips: 100, Seat: 1}}
			class = "create_dup_id"
		}
		labels[class] = true
		te := pokertable.NewTableEngine(pokertable.NewTableEngineOptions(), pokertable.WithGameBackend(pokertable.NewNativeGameBackend()))
		_, err := te.CreateTable(pokertable.TableSetting{TableID: "x", Meta: pokertable.TableMeta{Rule: rule, Mode: pokertable.CompetitionMode_CT, TableMaxSeatCount: n, TableMinPlayerCount: 2}, Blind: cfg.Blind, JoinPlayers: jps})
		c.Ch.Note("CreateTable(%s) -> %v", class, err)
		if err == nil {
			c.Failf("C03."+class+"-accepted", "CreateTable accepted an invalid player list (%s): %v", class, jps)
		}
		c.St.Case(keys(labels), true, class+fmt.Sprint(n), nil)
		return
	}
	s := sim.New(c.Ch, cfg, sim.Hooks{})
	c.Defer(s.Finish)
	if s.CreateErr != nil {
		c.Failf("C03.create-valid-refused", "valid creation refused: %s: %v", cfg.String(), s.CreateErr)
	}
	sm := pokertable.VerifSeatManager(s.TE)
	check := func(where string) {
		t := s.Now()
		sig, msg := seatConsistency(t, sm)
		for retry := 0; sig == "C03.sm-isin" && retry < 20; retry++ {
			// the engine seats reserved players in by itself on its own goroutine (auto-join
			// completion); table and seat manager are written one after the other: sample again
			time.Sleep(500 * time.Microsecond)
			t = s.Now()
			sig, msg = seatConsistency(t, sm)
		}
		if sig != "" {
			c.Failf(sig, "%s: %s; %s | sm: %s", where, msg, tableSummary(t), smDump(sm))
		}
		if sig, msg := model.compare(t); sig != "" {
			c.Failf(sig, "%s: %s; %s", where, msg, tableSummary(t))
		}
	}
	check("after creation")
	steps := c.Ch.Int("steps", 1, 30)
	failedAfterSuccess, reuse := false, false
	successes := 0
	for i := 0; i < steps; i++ {
		t := s.Now()
		before := seatView{Table: normTableJSON(t), SM: smDump(sm)}
		ids := sim.AllPlayers(t)
		free := sim.FreeSeats(t)
		newID := ""
		for k := 0; k < 24; k++ {
			if _, ok := model.seat[sim.PlayerID(k)]; !ok {
				newID = sim.PlayerID(k)
				break
			}
		}
		newID2 := ""
		for k := 0; k < 25; k++ {
			if _, ok := model.seat[sim.PlayerID(k)]; !ok && sim.PlayerID(k) != newID {
				newID2 = sim.PlayerID(k)
				break
			}
		}
		pick := func(label string) string { return ids[c.Ch.Int(label, 0, len(ids)-1)] }
		var op *sim.OpRec
		expectErr := false
		vacatedTarget := false
		// apply on success
		var onOK func()
		kind := choose.Weighted(c.Ch, "op", []int{8, 3, 4, 2, 5, 3, 4, 2, 2, 2, 2, 2, 2, 3, 2, 2, 2, 3, 2})
		switch kind {
		case 0: // reserve fixed free seat
			if len(free) == 0 {
				continue
			}
			seat := free[c.Ch.Int("seat", 0, len(free)-1)]
			vacatedTarget = model.freed[seat]
			op = s.Reserve(newID, seat, 100, "valid")
			id := newID
			onOK = func() { model.seat[id] = seat; delete(model.freed, seat) }
		case 1: // reserve random seat
			if len(free) == 0 {
				continue
			}
			op = s.Reserve(newID, -1, 100, "valid_random")
			id := newID
			onOK = func() {
				// any free seat is acceptable; the model learns which
				now := s.Now()
				if p := sim.FindPlayer(now, id); p != nil {
					ok := false
					for _, f := range free {
						if f == p.Seat {
							ok = true
						}
					}
					if !ok {
						c.Failf("C03.random-seat-not-free", "random reservation put %s on seat %d which was not free (%v)", id, p.Seat, free)
					}
					model.seat[id] = p.Seat
					delete(model.freed, p.Seat)
				}
				labels["random_seat"] = true
			}
		case 2: // join known
			if len(ids) == 0 {
				continue
			}
			id := pick("who")
			op = s.Join(id, "valid")
			onOK = func() { model.in[id] = true }
		case 3: // re-buy
			if len(ids) == 0 {
				continue
			}
			op = s.Reserve(pick("who"), -1, 50, "valid_rebuy")
			onOK = func() {}
		case 4: // leave one
			if len(ids) == 0 {
				continue
			}
			id := pick("who")
			op = s.Leave([]string{id}, "valid")
			onOK = func() { model.freed[model.seat[id]] = true; delete(model.seat, id); delete(model.in, id) }
		case 5: // leave several
			if len(ids) < 2 {
				continue
			}
			perm := choose.Perm(c.Ch, "who2", len(ids))
			a, b := ids[perm[0]], ids[perm[1]]
			op = s.Leave([]string{a, b}, "valid_multi")
			onOK = func() {
				for _, id := range []string{a, b} {
					model.freed[model.seat[id]] = true
					delete(model.seat, id)
					delete(model.in, id)
				}
			}
		case 6: // batch update valid
			var joins []pokertable.JoinPlayer
			var leaves []string
			if len(ids) > 0 && choose.Chance(c.Ch, "upd.leave", 60) {
				leaves = []string{pick("who")}
			}
			if len(free) > 0 && choose.Chance(c.Ch, "upd.join", 70) {
				seat := free[c.Ch.Int("seat", 0, len(free)-1)]
				if choose.Chance(c.Ch, "upd.rand", 30) {
					seat = -1
				}
				joins = []pokertable.JoinPlayer{{PlayerID: newID, RedeemChips: 100, Seat: seat}}
			}
			if len(joins) == 0 && len(leaves) == 0 {
				continue
			}
			op = s.Update(joins, leaves, "valid")
			onOK = func() {
				for _, id := range leaves {
					model.freed[model.seat[id]] = true
					delete(model.seat, id)
					delete(model.in, id)
				}
				now := s.Now()
				for _, j := range joins {
					if p := sim.FindPlayer(now, j.PlayerID); p != nil {
						model.seat[j.PlayerID] = p.Seat
						delete(model.freed, p.Seat)
					}
				}
				if op.Ret != nil {
					want := map[string]int{}
					for id, st := range model.seat {
						want[id] = st
					}
					if fmt.Sprint(want) != fmt.Sprint(op.Ret) {
						c.Failf("C03.update-retmap", "UpdateTablePlayers returned %v, seats are %v", op.Ret, want)
					}
				}
			}
		case 7: // seat taken
			if len(ids) == 0 {
				continue
			}
			op = s.Reserve(newID, model.seat[pick("who")], 100, "err_taken")
			expectErr = true
		case 8: // table full
			if len(free) != 0 {
				continue
			}
			op = s.Reserve(newID, -1, 100, "err_full")
			expectErr = true
		case 9: // seat out of range
			seat := n + c.Ch.Int("range", 0, 3)
			if choose.Chance(c.Ch, "neg", 30) {
				seat = -2 - c.Ch.Int("negv", 0, 2)
			}
			if len(free) == 0 {
				continue
			}
			op = s.Reserve(newID, seat, 100, "err_range")
			expectErr = true
		case 10: // unknown leave
			op = s.Leave([]string{"ghost"}, "err_unknown_leave")
			expectErr = true
		case 11: // mixed known + unknown leave
			if len(ids) == 0 {
				continue
			}
			l := []string{pick("who"), "ghost"}
			if choose.Chance(c.Ch, "order", 50) {
				l[0], l[1] = l[1], l[0]
			}
			op = s.Leave(l, "err_mixed_leave")
			expectErr = true
		case 12: // join unknown
			op = s.Join("ghost", "err_unknown_join")
			expectErr = true
		case 13: // batch: duplicate id in the join list / join of a seated player
			if len(free) < 2 {
				continue
			}
			if len(ids) > 0 && choose.Chance(c.Ch, "dupkind", 50) {
				seat := free[0]
				if choose.Chance(c.Ch, "duprand", 50) {
					seat = -1
				}
				op = s.Update([]pokertable.JoinPlayer{{PlayerID: pick("who"), RedeemChips: 100, Seat: seat}}, nil, "err_dup_seated")
			} else {
				op = s.Update([]pokertable.JoinPlayer{{PlayerID: newID, RedeemChips: 100, Seat: free[0]}, {PlayerID: newID, RedeemChips: 100, Seat: free[1]}}, nil, "err_dup_batch")
			}
			expectErr = true
		case 14: // batch: valid leave + failing join (seat taken)
			if len(ids) < 2 {
				continue
			}
			if excluded("C03.error-changed-table.err_mixed_batch") && (pinnedMixedBatchDone || i > 0) {
				// known finding: its trigger is left out of the campaign; one pinned
				// demonstration per process keeps it visible (first step of a case only)
				c.St.Exclude("err_mixed_batch (known finding)", 1)
				continue
			}
			pinnedMixedBatchDone = true
			perm := choose.Perm(c.Ch, "who2", len(ids))
			op = s.Update([]pokertable.JoinPlayer{{PlayerID: newID, RedeemChips: 100, Seat: model.seat[ids[perm[1]]]}}, []string{ids[perm[0]]}, "err_mixed_batch")
			expectErr = true
		case 15: // batch: more joins than free seats (fixed + random)
			if len(free) == 0 || len(free) > 3 {
				continue
			}
			joins := []pokertable.JoinPlayer{{PlayerID: newID, RedeemChips: 100, Seat: free[0]}}
			for k := 0; k < len(free); k++ {
				joins = append(joins, pokertable.JoinPlayer{PlayerID: fmt.Sprintf("x%02d", k), RedeemChips: 100, Seat: -1})
			}
			op = s.Update(joins, nil, "err_batch_overflow")
			expectErr = true
		case 17: // batch: a random-seat member plus a fixed-seat member whose seat is taken / out of range
			if len(ids) == 0 || len(free) < 2 {
				continue
			}
			bad := model.seat[pick("who")]
			if choose.Chance(c.Ch, "mixrange", 30) {
				bad = n + 1
			}
			joins := []pokertable.JoinPlayer{{PlayerID: newID, RedeemChips: 100, Seat: -1}, {PlayerID: newID2, RedeemChips: 100, Seat: bad}}
			if choose.Chance(c.Ch, "mixorder", 50) {
				joins[0], joins[1] = joins[1], joins[0]
			}
			op = s.Update(joins, nil, "err_mixed_random_fixed")
			expectErr = true
		case 18: // batch: valid mixed random + fixed members
			if len(free) < 2 {
				continue
			}
			{
				id2 := newID2
				joins := []pokertable.JoinPlayer{{PlayerID: newID, RedeemChips: 100, Seat: -1}, {PlayerID: id2, RedeemChips: 100, Seat: free[c.Ch.Int("seat", 0, len(free)-1)]}}
				op = s.Update(joins, nil, "valid_mixed_random_fixed")
				onOK = func() {
					now := s.Now()
					for _, j := range joins {
						if p := sim.FindPlayer(now, j.PlayerID); p != nil {
							model.seat[j.PlayerID] = p.Seat
							delete(model.freed, p.Seat)
						}
					}
					labels["random_seat"] = true
				}
			}
		case 16: // duplicate id in a leave list
			if len(ids) == 0 {
				continue
			}
			id := pick("who")
			op = s.Leave([]string{id, id}, "dup_leave")
			onOK = func() { model.freed[model.seat[id]] = true; delete(model.seat, id); delete(model.in, id) }
		}
		if op == nil {
			continue
		}
		labels[op.Class] = true
		trace = append(trace, op.Class)
		if op.Panic != nil {
			c.Failf("C03.panic."+op.Class, "operation %s panicked: %v", op.String(), op.Panic)
		}
		if expectErr && op.Err == nil {
			c.Failf("C03.accepted."+op.Class, "invalid operation accepted: %s; %s", op.String(), tableSummary(s.Now()))
		}
		if op.Err != nil {
			if !expectErr {
				if vacatedTarget {
					c.Failf("C03.vacated-seat-refused", "reservation of a vacated seat refused: %s", op.String())
				}
				c.Failf("C03.refused."+op.Class, "valid operation refused: %s; %s | sm: %s", op.String(), tableSummary(t), before.SM)
			}
			// all-or-nothing
			after := seatView{Table: normTableJSON(s.Now()), SM: smDump(sm)}
			if (after.Table != before.Table || after.SM != before.SM) && !joinTouchedOwnFlag(op) && lateAutoJoinOnly(before.Table, after.Table) && lateAutoJoinOnly(before.SM, after.SM) {
				// the completion callback of an auto-join group that completed earlier runs on a
				// goroutine of its own and seats every reserved player in; it landed during this
				// (refused) operation - see DESIGN.md section 5, observations
				labels["auto_join_callback_landed_late"] = true
				after = before
			}
			if after.Table != before.Table {
				c.Failf("C03.error-changed-table."+op.Class, "%s reported an error but the table changed:\nbefore %s\nafter  %s", op.String(), tableSummary(t), tableSummary(s.Now()))
			}
			if after.SM != before.SM {
				c.Failf("C03.error-changed-sm."+op.Class, "%s reported an error but the seat manager changed:\nbefore %s\nafter  %s", op.String(), before.SM, after.SM)
			}
			if successes > 0 {
				failedAfterSuccess = true
			}
		} else {
			successes++
			if onOK != nil {
				onOK()
			}
			if vacatedTarget {
				reuse = true
				labels["reuse_vacated"] = true
			}
		}
		check("after " + op.String())
	}
	c.St.Case(keys(labels), failedAfterSuccess || reuse, strings.Join(trace, ","), func() interface{} {
		ops := c.Ch.Notes
		if len(ops) > 35 {
			ops = ops[:35]
		}
		return map[string]interface{}{"ops": ops}
	})
}

func keys(m map[string]bool) []string {
	out := make([]string, 0, len(m))
	for k := range m {
		out = append(out, k)
	}
	sort.Strings(out)
	return out
}

func TestC03(t *testing.T) {
	run.Property(t, "C03", "c03", c03Stats, run.Scale(30, 300), c03Body)
}

// TestC03Hands: the same consistency predicate and all-or-nothing rule at every
// quiescent point of real table histories (standby / paused after real hands).
var c03hStats = ev.New("C03", "c03h")

func c03HandsBody(c *run.Ctx) {
	var sm seat_manager.SeatManager
	nontrivial := false
	o := HistOpts{
		Gen:          sim.GenOpts{ShortStacks: 30, SitOutPct: 20, ViaCreatePct: 30, RandomSeatPct: 20, AnteePct: 20},
		MinHands:     1,
		MaxHands:     run.Scale(5, 10),
		BetweenOps:   4,
		BetweenPct:   85,
		Mem:          sim.MemOpts{NewPlayer: 4, NewRandom: 2, JoinSitter: 2, Rebuy: 2, Addon: 1, Leave: 4, Invalid: 5, KeepSitting: 30, MaxNewID: 14, TopupAnyone: true},
		RearmOnLeave: true,
	}
	o.Prepare = func(s *sim.Sim) { sm = pokertable.VerifSeatManager(s.TE) }
	check := func(s *sim.Sim, where string) {
		t := s.Now()
		sig, msg := seatConsistency(t, sm)
		for retry := 0; sig == "C03.sm-isin" && retry < 20; retry++ {
			time.Sleep(500 * time.Microsecond)
			t = s.Now()
			sig, msg = seatConsistency(t, sm)
		}
		if sig != "" {
			c.Failf(sig, "%s: %s; %s | sm: %s", where, msg, tableSummary(t), smDump(sm))
		}
	}
	o.AfterHand = func(s *sim.Sim, h *sim.Hand) {
		if h.After != nil {
			check(s, fmt.Sprintf("fence after hand %d", h.N))
			s.Label("after_hands")
		}
	}
	onOp := func(s *sim.Sim, op *sim.OpRec) {
		if op.InHand {
			return
		}
		if op.Panic != nil {
			c.Failf("C03.panic."+op.Class, "operation %s panicked: %v", op.String(), op.Panic)
		}
		s.Label(op.Class)
		if op.Err != nil {
			if normTableJSON(op.Before) != normTableJSON(op.After) && !(!joinTouchedOwnFlag(op) && lateAutoJoinOnly(normTableJSON(op.Before), normTableJSON(op.After))) {
				c.Failf("C03.error-changed-table."+op.Class, "%s reported an error but the table changed:\nbefore %s\nafter  %s", op.String(), tableSummary(op.Before), tableSummary(op.After))
			}
			if len(s.Hands) > 0 {
				nontrivial = true
			}
		}
		check(s, "after "+op.String())
	}
	s := RunHistory(c, o, sim.Hooks{}, onOp)
	c.St.Case(s.Labels(), nontrivial, traceOf(s), sampleOf(s))
}

func TestC03Hands(t *testing.T) {
	run.Property(t, "C03", "c03h", c03hStats, run.Scale(10, 100), c03HandsBody)
}

// TestC03Pinned keeps the recorded finding demonstrated (UpdateTablePlayers applies
// the leave part before a failing join part).
var c03pStats = ev.New("C03", "c03p")

func TestC03Pinned(t *testing.T) {
	defer c03pStats.Write()
	const sig = "C03.error-changed-table.err_mixed_batch"
	if run.IsKnown("C03", sig) == nil {
		return
	}
	c := &run.Ctx{Prop: "C03", Check: "c03p", TB: t, St: c03pStats}
	c.Ch = choose.NewRecorder(choose.NewScriptChooser(nil))
	func() {
		defer func() {
			if r := recover(); r != nil && fmt.Sprint(r) != "{}" {
				panic(r)
			}
		}()
		cfg := sim.Config{Seats: 4, Rule: pokertable.CompetitionRule_Default, Mode: pokertable.CompetitionMode_CT, MinPlayers: 2, Blind: pokertable.TableBlindState{Level: 1, SB: 5, BB: 10},
			Players: []sim.PlayerSpec{{ID: "p00", Seat: 3, Chips: 100}, {ID: "p01", Seat: 2, Chips: 100}, {ID: "p02", Seat: 1, Chips: 100}, {ID: "p03", Seat: 0, Chips: 100}}}
		s := sim.New(c.Ch, cfg, sim.Hooks{})
		defer s.Finish()
		if s.CreateErr != nil {
			return
		}
		op := s.Update([]pokertable.JoinPlayer{{PlayerID: "p04", RedeemChips: 100, Seat: 0}}, []string{"p00"}, "err_mixed_batch")
		if op.Err != nil && normTableJSON(op.Before) != normTableJSON(op.After) {
			c.Failf(sig, "%s reported an error but the table changed:\nbefore %s\nafter  %s", op.String(), tableSummary(op.Before), tableSummary(op.After))
		}
	}()
	c03pStats.Case([]string{"pinned"}, true, "pinned-c03", func() interface{} {
		return "UpdateTablePlayers(join p04 at the taken seat 0, leave p00) on a full 4-seat table"
	})
}
