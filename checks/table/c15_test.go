package table

import (
	"fmt"
	"sync/atomic"
	"testing"
	"time"

	"github.com/weedbox/pokerface"
	"github.com/weedbox/pokertable"

	"verif/harness/choose"
	"verif/harness/ev"
	"verif/harness/run"
	"verif/harness/sim"
)

var c15Stats = ev.New("C15", "c15")

// real pauses (1.1 s) before a drawn action make a deadline that was not refreshed for
// a player asked a second time in the same round visible at second granularity;
// they cost wall time, so each process has a small budget
var c15PauseBudget = 6

func wagerOnly(actions []string) bool {
	if len(actions) == 0 {
		return false
	}
	for _, a := range actions {
		switch a {
		case "call", "raise", "allin", "check", "fold", "bet":
		default:
			return false
		}
	}
	return true
}

func c15Body(c *run.Ctx) {
	nontrivial := false
	// t0: unix second read before the harness submitted the call that led to the
	// next snapshot; the engine stamps its deadline between t0 and the moment the
	// snapshot is received (t1). No tolerance constant, immune to load.
	var t0 int64 = time.Now().Unix()
	var expect int64 = -1 // expected deadline after extensions (exact), -1 = unknown
	turnsInHand, roundsWithTurns := 0, map[string]bool{}
	var hooks sim.Hooks
	hooks.Event = func(s *sim.Sim, e *sim.Event) {
		if e.Kind != "state" || e.Table == nil {
			return
		}
		gs := e.Table.State.GameState
		if e.Name != pokertable.TableStateEvent_GameUpdated || gs == nil {
			return
		}
		at := int64(e.Table.Meta.ActionTime)
		end := e.Table.State.CurrentActionEndAt
		switch gs.Status.CurrentEvent {
		case "RoundStarted":
			p := gs.GetPlayer(gs.Status.CurrentPlayer)
			if p == nil {
				return
			}
			if !p.Acted && wagerOnly(p.AllowedActions) && e.Table.State.Status == pokertable.TableStateStatus_TableGamePlaying {
				t1 := e.At.Unix()
				if end < t0+at || end > t1+at {
					c.Failf("C15.deadline-bracket", "turn of game index %d in %s: deadline %d not within [%d, %d] = request time [%d, %d] + action time %d", gs.Status.CurrentPlayer, gs.Status.Round, end, t0+at, t1+at, t0, t1, at)
				}
				expect = end
				turnsInHand++
				roundsWithTurns[gs.Status.Round] = true
				s.Label("turns")
				if at == 0 {
					s.Label("action_time_0")
				}
			}
		case "RoundClosed":
			// cleared by the round-closed handler, which runs before this snapshot is published
			if end != 0 {
				c.Failf("C15.not-cleared-on-round-close", "round %s closed but the deadline is still %d", gs.Status.Round, end)
			}
			expect = 0
		}
	}
	hooks.AtDecision = func(s *sim.Sim, d *sim.Decision) {
		if d.Kind == "turn" && choose.Chance(c.Ch, "ext.any", 35) {
			n := c.Ch.Int("ext.n", 1, 3)
			for i := 0; i < n; i++ {
				dur := c.Ch.Int("ext.d", 0, 60)
				before := s.TE.GetTable().State.CurrentActionEndAt
				got, err := s.API.PlayerExtendActionDeadline(d.Asked[0], dur)
				after := s.TE.GetTable().State.CurrentActionEndAt
				c.Ch.Note("  extend %s by %d: %d -> %d (ret %d, %v)", d.Asked[0], dur, before, after, got, err)
				if err != nil {
					c.Failf("C15.extension-error", "extension refused: %v", err)
				}
				if got != before+int64(dur) || after != before+int64(dur) {
					c.Failf("C15.extension-exact", "extension by %d s: deadline %d -> %d, returned %d; expected %d", dur, before, after, got, before+int64(dur))
				}
				s.Label("extension")
				if i == 2 {
					s.Label("extension_x3")
				}
				nontrivial = true
			}
		}
		if d.Kind == "turn" && c15PauseBudget > 0 && d.GS.Status.CurrentWager > 0 && choose.Chance(c.Ch, "think", run.Scale(6, 3)) {
			c15PauseBudget--
			time.Sleep(1100 * time.Millisecond)
			s.Label("real_thinking_pause")
		}
		t0 = time.Now().Unix()
	}
	hooks.AfterAct = func(s *sim.Sim, a *sim.ActionRec) {}
	hooks.Opened = func(s *sim.Sim, h *sim.Hand) {
		turnsInHand, roundsWithTurns = 0, map[string]bool{}
		if h.Opened.State.CurrentActionEndAt != 0 {
			c.Failf("C15.not-cleared-at-open", "hand %d opens with deadline %d", h.N, h.Opened.State.CurrentActionEndAt)
		}
		t0 = time.Now().Unix()
	}
	o := HistOpts{
		Gen:          sim.GenOpts{ShortStacks: 15, SitOutPct: 10, AnteePct: 25, MaxPlayers: 7, ActionTimeMax: 30},
		MinHands:     1,
		MaxHands:     run.Scale(4, 8),
		BetweenOps:   1,
		BetweenPct:   20,
		Mem:          sim.MemOpts{NewPlayer: 3, Rebuy: 3, Leave: 1, KeepSitting: 10, MaxNewID: 12, TopupAnyone: true},
		RearmOnLeave: true,
	}
	// a late "more time" request arriving while the hand is being settled (issued from inside
	// the settled notification): whatever it does, nothing may be left between hands
	lateExtID, lateExtDur := "", 0
	// a few cases let the backend fail the engine's own Next call behind a closed betting round
	// (a remote hand engine that is unavailable at that moment): the closed round is still
	// published, and it must be published without a deadline. The hand stops there (the engine
	// does not retry), which ends the case.
	var nextCalls, nextFailed int32
	failNextAt := int32(-1)
	if choose.Chance(c.Ch, "fault.next", 6) {
		failNextAt = int32(c.Ch.Int("fault.next.ord", 0, 3))
	}
	o.OnStall = func(s *sim.Sim, h *sim.Hand) {
		if atomic.LoadInt32(&nextFailed) > 0 {
			s.Label("round_closed_while_backend_next_failed")
			c.St.Case(s.Labels(), true, traceOf(s), sampleOf(s))
			c.End()
		}
	}
	o.Prepare = func(s *sim.Sim) {
		if failNextAt >= 0 {
			s.BE.FaultFn = func(ord int, kind string, gs *pokerface.GameState) bool {
				if kind != "Next" {
					return false
				}
				if atomic.AddInt32(&nextCalls, 1)-1 == failNextAt {
					atomic.StoreInt32(&nextFailed, 1)
					s.StepWait = 1200 * time.Millisecond // nothing more will come: do not wait the full step time
					return true
				}
				return false
			}
		}
		s.InCallback = func(sm *sim.Sim, name string, t *pokertable.Table) {
			if lateExtID != "" && name == pokertable.TableStateEvent_GameSettled {
				id := lateExtID
				lateExtID = ""
				sm.TE.PlayerExtendActionDeadline(id, lateExtDur)
			}
		}
	}
	o.BeforeHand = func(s *sim.Sim, n int) bool {
		lateExtID = ""
		if choose.Chance(c.Ch, "ext.late", 15) {
			if live := sim.LivePlayers(s.Now()); len(live) > 0 {
				lateExtID = live[c.Ch.Int("ext.late.who", 0, len(live)-1)]
				lateExtDur = c.Ch.Int("ext.late.d", 1, 60)
				s.Label("extension_during_settlement")
				nontrivial = true
			}
		}
		return true
	}
	o.AfterHand = func(s *sim.Sim, h *sim.Hand) {
		if h.After != nil && h.After.State.CurrentActionEndAt != 0 {
			c.Failf("C15.not-cleared-between-hands", "after hand %d the deadline is %d", h.N, h.After.State.CurrentActionEndAt)
		}
		if turnsInHand >= 2 && len(roundsWithTurns) >= 2 {
			nontrivial = true
			s.Label("multi_round_turns")
		}
		s.Label(fmt.Sprintf("action_time_%d", s.Cfg.ActionTime/10*10))
	}
	s := RunHistory(c, o, hooks, nil)
	_ = expect
	c.St.Case(s.Labels(), nontrivial, traceOf(s), sampleOf(s))
}

func TestC15(t *testing.T) {
	run.Property(t, "C15", "c15", c15Stats, run.Scale(20, 200), c15Body)
}
