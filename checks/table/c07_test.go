package table

import (
	"fmt"
	"reflect"
	"sync/atomic"
	"testing"
	"time"

	"github.com/weedbox/pokertable"

	"verif/harness/choose"
	"verif/harness/ev"
	"verif/harness/run"
	"verif/harness/sim"
)

var c07Stats = ev.New("C07", "c07")

type lifeCycle struct {
	c         *run.Ctx
	last      pokertable.TableStateStatus
	lastCount int
	openHand  bool // an opened hand has not been settled yet
	gameIDs   map[string]bool
	curGameID string
	closedAt  int // event seq at which the harness closed/released the table between hands (0 = not)
	external  bool
	override  string // when set, every failure of the automaton is reported under this one signature
	// the harness closed the table at a moment that certainly precedes the engine's next
	// continue step (inside the settled notification, or < 0.9 s into a 1 s continue delay):
	// from then on nothing but "closed" may be published (set from callbacks: atomic)
	closedFirm int32
}

func statusClass(st pokertable.TableStateStatus) string {
	switch st {
	case pokertable.TableStateStatus_TableCreated, pokertable.TableStateStatus_TableBalancing, pokertable.TableStateStatus_TablePausing:
		return "idle"
	case pokertable.TableStateStatus_TableGameOpened:
		return "opened"
	case pokertable.TableStateStatus_TableGamePlaying:
		return "playing"
	case pokertable.TableStateStatus_TableGameSettled:
		return "settled"
	case pokertable.TableStateStatus_TableGameStandby:
		return "standby"
	case pokertable.TableStateStatus_TableClosed:
		return "closed"
	}
	return string(st)
}

// step feeds one published snapshot into the automaton.
func (l *lifeCycle) step(s *sim.Sim, e *sim.Event, standbySeen bool) {
	t := e.Table
	from, to := statusClass(l.last), statusClass(t.State.Status)
	ok := from == to
	switch from + ">" + to {
	case "idle>opened", "opened>playing", "playing>settled", "settled>standby", "standby>opened", "standby>idle", ">idle", "idle>idle":
		ok = true
	case "settled>idle":
		// standby is never published by itself and no fence exists before a pause
		ok = t.State.Status == pokertable.TableStateStatus_TablePausing
	case "settled>opened":
		// accepted iff the fence sample in between read standby
		ok = standbySeen
	}
	if l.external && (to == "idle" || to == "closed") {
		ok = true // an external pause / close request
	}
	if from == "closed" && to != "closed" && atomic.LoadInt32(&l.closedFirm) == 1 {
		// not a move of the life cycle and not the effect of an external request either: the
		// engine's own continue step ran after the close and did not respect it
		l.c.Failf("C07.left-closed."+to, "the table was closed before the continue step of the settled hand could run, yet afterwards its status moved from %s to %s (event %s %s)", l.last, t.State.Status, e.Kind, e.Name)
	}
	if from == "closed" && to == "closed" {
		ok = true
	}
	if !ok {
		sig := "C07.transition." + from + "-" + to
		if l.override != "" {
			sig = l.override
		}
		l.c.Failf(sig, "status moved from %s to %s (event %s %s)", l.last, t.State.Status, e.Kind, e.Name)
	}
	l.last = t.State.Status
}

func resetFieldsViolation(t *pokertable.Table) string {
	st := t.State
	if st.GameState != nil {
		return "hand state is not nil"
	}
	if len(st.GamePlayerIndexes) != 0 {
		return fmt.Sprintf("hand player list %v is not empty", st.GamePlayerIndexes)
	}
	if st.CurrentActionEndAt != 0 {
		return fmt.Sprintf("action deadline is %d", st.CurrentActionEndAt)
	}
	if st.LastPlayerGameAction != nil {
		return "last player action is still set"
	}
	zero := pokertable.NewPlayerGameStatistics()
	for _, p := range st.PlayerStates {
		if len(p.Positions) != 0 {
			return fmt.Sprintf("%s still has labels %v", p.PlayerID, p.Positions)
		}
		if !reflect.DeepEqual(p.GameStatistics, zero) {
			return fmt.Sprintf("%s still has statistics %+v", p.PlayerID, p.GameStatistics)
		}
	}
	return ""
}

func c07Body(c *run.Ctx) { c07BodyIv(c, 0) }

// c07BodyIv: interval > 0 runs the table with a real continue delay of that many
// seconds and issues control operations at drawn offsets inside it.
func c07BodyIv(c *run.Ctx, interval int) { c07BodyOpt(c, interval, false) }

// forceNoHold: every hand has the next one set up and confirmed from inside the settled
// notification, without holding it open (pinned demonstration of the recorded finding)
func c07BodyOpt(c *run.Ctx, interval int, forceNoHold bool) {
	nontrivial := false
	l := &lifeCycle{c: c, gameIDs: map[string]bool{}}
	standbySeen := false
	raceWindow, raceSettled := false, false // see hooks.Event
	const raceSig = "C07.gate-completes-during-continue-step"
	vio := func(sig, format string, args ...interface{}) {
		if raceSettled {
			c.Failf(raceSig, "after the next hand was set up and confirmed from inside the settled notification: ["+sig+"] "+format, args...)
		}
		c.Failf(sig, format, args...)
	}
	prevGameID := ""
	handsInARow := 0
	changedBetween := false
	var hooks sim.Hooks
	noOpenAfter := 0 // event seq after which no opened snapshot may follow (0 = none)
	noOpenWhy := ""
	var inhandSetupAt time.Time // last SetUpTableGame issued while the current hand ran (before the call)
	hooks.Event = func(s *sim.Sim, e *sim.Event) {
		if e.Table == nil || (e.Kind != "table" && e.Kind != "state") {
			return
		}
		t := e.Table
		if statusClass(t.State.Status) == string(t.State.Status) {
			// not a status constant: the engine writes the status without synchronisation while
			// its updater goroutine publishes (startGame vs. first hand snapshot); a torn read
			s.Label("torn_status_read")
			return
		}
		cls := statusClass(t.State.Status)
		if cls == "opened" && e.Kind == "table" && t.State.GameState != nil && prevGameID != "" && t.State.GameState.GameID == prevGameID {
			c.Failf("C07.opened-with-previous-hand-state", "a table snapshot with status opened and game count %d still carries the hand state of the previous hand (%s): the hand was opened while the previous one was still being settled", t.State.GameCount, prevGameID)
		}
		if raceWindow && (cls == "settled" || raceSettled) {
			// the gate completes while the engine settles / continues this hand (set-up and signals
			// issued from inside the settled notification): the continue step is not serialised with
			// the open, so what follows may break the life cycle in several ways; all of them are
			// reported under one signature (a recorded finding, DESIGN.md section 5)
			raceSettled = true
			l.override = raceSig
		}
		// A set-up call made while the hand ran (nobody confirms it) completes by its 2 s timeout;
		// when that falls between the settlement and the engine's own set-up of the next hand
		// (the table is in standby then, which is never published by itself) the hand it opens
		// follows the settled snapshot directly. This is the effect of the external call, not a
		// move of the table left to itself - accepted only when the timeout can have fired.
		byInhandGate := cls == "opened" && !inhandSetupAt.IsZero() && e.At.Sub(inhandSetupAt) >= 1900*time.Millisecond
		if byInhandGate && statusClass(l.last) == "settled" && !standbySeen && !raceSettled {
			// the open fell into the continue delay of the settled hand: the engine's delayed continue
			// step is still to come and is not serialised with this hand (root cause of the recorded
			// finding, reached here through another external trigger). The case ends here, counted.
			s.Label("opened_by_timeout_of_inhand_setup")
			s.Label(fmt.Sprintf("hands_%d", len(s.Hands)))
			c.St.Case(s.Labels(), true, traceOf(s), sampleOf(s))
			c.End()
		}
		l.step(s, e, standbySeen || raceSettled)
		if cls == "opened" && t.State.GameState == nil && e.Kind == "table" {
			// the opened snapshot of a new hand
			if noOpenAfter > 0 && e.Seq > noOpenAfter {
				vio("C07.open-after-"+noOpenWhy, "a hand opened (game count %d) although the table had been %s between hands", t.State.GameCount, noOpenWhy)
			}
			if l.openHand {
				vio("C07.open-while-unsettled", "hand with game count %d opened while the previous hand was not settled", t.State.GameCount)
			}
			if t.State.GameCount != l.lastCount+1 {
				vio("C07.game-count", "opened hand has game count %d, previous was %d", t.State.GameCount, l.lastCount)
			}
			l.lastCount = t.State.GameCount
			l.openHand = true
			l.curGameID = ""
			standbySeen = false
			inhandSetupAt = time.Time{}
		}
		if gs := t.State.GameState; gs != nil && l.openHand && l.curGameID == "" {
			if l.gameIDs[gs.GameID] {
				vio("C07.game-id-reused", "hand with game count %d carries game id %s which an earlier hand had", t.State.GameCount, gs.GameID)
			}
			l.gameIDs[gs.GameID] = true
			l.curGameID = gs.GameID
		}
		if gs := t.State.GameState; gs != nil && l.curGameID != "" && gs.GameID != l.curGameID {
			vio("C07.game-id-changed", "game id changed within a hand: %s -> %s", l.curGameID, gs.GameID)
		}
		if cls == "settled" {
			l.openHand = false
			if l.curGameID != "" {
				prevGameID = l.curGameID
			}
		}
	}
	// control operations
	closeInCB := false
	breakBeforeClose := false
	setupInCB := false
	holdCB := false
	hooks.Fence = func(s *sim.Sim, h *sim.Hand) {
		// only the engine's own fences (gate armed / paused) are ordered after the
		// reset of the per-hand fields; a close issued from outside is not
		if h.After == nil || (h.Outcome != "gate" && h.Outcome != "paused") {
			return
		}
		switch h.After.State.Status {
		case pokertable.TableStateStatus_TableGameStandby:
			standbySeen = true
			if v := resetFieldsViolation(h.After); v != "" {
				vio("C07.not-reset", "between hands (after hand %d): %s", h.N, v)
			}
		case pokertable.TableStateStatus_TablePausing:
			standbySeen = true // continueGame passes through standby before pausing
			if v := resetFieldsViolation(h.After); v != "" {
				vio("C07.not-reset", "paused after hand %d: %s", h.N, v)
			}
		}
	}
	o := HistOpts{
		Gen:          sim.GenOpts{ShortStacks: 25, SitOutPct: 15, ViaCreatePct: 30, AnteePct: 25, MaxPlayers: 7, Modes: []int{3, 2, 2}},
		MinHands:     2,
		MaxHands:     run.Scale(7, 15),
		BetweenOps:   2,
		BetweenPct:   50,
		Mem:          sim.MemOpts{NewPlayer: 4, JoinSitter: 2, Rebuy: 4, Leave: 2, KeepSitting: 20, MaxNewID: 12, TopupAnyone: true},
		RearmOnLeave: true,
		ExpectStalls: true,
	}
	lateExtID, lateExtDur := "", 0
	o.Prepare = func(s *sim.Sim) {
		l.last = s.Now().State.Status
		s.InCallback = func(sm *sim.Sim, name string, t *pokertable.Table) {
			if closeInCB && name == pokertable.TableStateEvent_GameSettled {
				closeInCB = false
				if breakBeforeClose {
					// the level becomes a break first: the continue step would pause, were the table not closed
					b := sm.Cfg.Blind
					sm.TE.UpdateBlind(-1, b.Ante, b.Dealer, b.SB, b.BB)
				}
				sm.TE.CloseTable()
				atomic.StoreInt32(&l.closedFirm, 1)
			}
			if lateExtID != "" && name == pokertable.TableStateEvent_GameSettled {
				// a late "more time" request that arrives while the hand is being settled: whatever
				// it does to the deadline, nothing of it may be left between hands
				id := lateExtID
				lateExtID = ""
				sm.TE.PlayerExtendActionDeadline(id, lateExtDur)
			}
			if setupInCB && name == pokertable.TableStateEvent_GameSettled {
				// the competition side arms the next hand from the settlement notification and
				// everybody confirms at once: the gate completes while the hand is still being settled
				setupInCB = false
				parts := map[string]int{}
				for _, p := range t.State.PlayerStates {
					if p.IsIn && p.Bankroll > 0 {
						parts[p.PlayerID] = len(parts)
					}
				}
				sm.TE.SetUpTableGame(t.State.GameCount+1, parts)
				for id := range parts {
					sm.TE.PlayerSettlementFinish(id)
				}
				if holdCB {
					// keep the settlement notification open for a moment: the gate's own goroutine
					// gets its turn while the table is still in status settled (there the open is
					// refused: a hand state is present). Without the hold it gets its turn during the
					// continue step, which is the recorded finding.
					time.Sleep(30 * time.Millisecond)
				}
			}
		}
	}
	control := ""
	// operations inside the real continue delay (interval > 0 only)
	delayOp, delayOffset, endNow := "", 0, false
	opCertainlyFirst := false // the operation returned < 0.9 s after the settlement was published: the 1 s continue step cannot have run yet
	hooks.Settled = func(s *sim.Sim, h *sim.Hand) {
		if delayOp == "" {
			return
		}
		time.Sleep(time.Duration(delayOffset) * 100 * time.Millisecond)
		switch delayOp {
		case "close", "release", "break_close":
			l.external = true
			var err error
			if delayOp == "break_close" {
				b := s.Cfg.Blind
				s.API.UpdateBlind(-1, b.Ante, b.Dealer, b.SB, b.BB)
				c.Ch.Note("  UpdateBlind(-1) at the start of the continue delay")
			}
			if delayOp != "release" {
				err = s.API.CloseTable()
				if err == nil && time.Since(h.SettledAt) < 900*time.Millisecond {
					atomic.StoreInt32(&l.closedFirm, 1)
				}
			} else {
				err = s.API.ReleaseTable()
			}
			c.Ch.Note("  %s %d00 ms into the continue delay -> %v", delayOp, delayOffset, err)
			noOpenAfter, noOpenWhy = s.EventsTotal(), map[string]string{"close": "closed", "release": "released", "break_close": "closed"}[delayOp]
		case "break":
			b := s.Cfg.Blind
			s.API.UpdateBlind(-1, b.Ante, b.Dealer, b.SB, b.BB)
			c.Ch.Note("  UpdateBlind(-1) %d00 ms into the continue delay", delayOffset)
			noOpenAfter, noOpenWhy = s.EventsTotal(), "on-a-break"
		case "arrival":
			mo := sim.MemOpts{NewPlayer: 3, NewRandom: 1, JoinSitter: 2, Rebuy: 2, Addon: 2, KeepSitting: 20, MaxNewID: 12, TopupAnyone: true}
			if op := s.RandomMembershipOp(mo); op != nil {
				c.Ch.Note("  %s %d00 ms into the continue delay", op.Kind, delayOffset)
			}
		}
		opCertainlyFirst = time.Since(h.SettledAt) < 900*time.Millisecond
		s.Label("delay_" + delayOp)
		nontrivial = true
	}
	o.BeforeHand = func(s *sim.Sim, n int) bool {
		if endNow {
			return false
		}
		if n >= 2 {
			handsInARow++
		}
		lateExtID = ""
		if choose.Chance(c.Ch, "ctl.ext.late", 15) {
			if live := sim.LivePlayers(s.Now()); len(live) > 0 {
				lateExtID = live[c.Ch.Int("ctl.ext.late.who", 0, len(live)-1)]
				lateExtDur = c.Ch.Int("ctl.ext.late.d", 1, 60)
				s.Label("extension_during_settlement")
			}
		}
		if interval > 0 {
			delayOp = ""
			switch choose.Weighted(c.Ch, "delay.op", []int{3, 2, 2, 2, 3, 2}) {
			case 5:
				delayOp = "break_close"
			case 1:
				delayOp = "close"
			case 2:
				delayOp = "release"
			case 3:
				delayOp = "break"
			case 4:
				delayOp = "arrival"
			}
			delayOffset = c.Ch.Int("delay.offset", 0, 14) // up to 1.4 s: both sides of the 1 s delay
			if delayOp == "close" || delayOp == "release" || delayOp == "break_close" {
				s.FenceWait = 1500 * time.Millisecond
			}
			if delayOp != "" {
				return true // one control operation per hand
			}
		}
		// repeated set-up calls while the gate is pending (same and different game count)
		if choose.Chance(c.Ch, "ctl.doublesetup", 12) {
			s.Label("double_setup")
			nontrivial = true
			if !s.SetupGate(nil) {
				return false
			}
		}
		// close / release after the gate was armed, before the signals
		if n >= 2 && choose.Chance(c.Ch, "ctl.close.armed", 8) {
			kind := "closed"
			l.external = true
			if choose.Chance(c.Ch, "ctl.release", 40) {
				kind = "released"
				s.API.ReleaseTable()
			} else {
				s.API.CloseTable()
			}
			s.Drain()
			noOpenAfter, noOpenWhy = s.EventsTotal(), kind
			s.Label(kind + "_after_gate_armed")
			nontrivial = true
			plan := s.PlanSignals(0)
			s.Deliver(plan)
			// observation window: the gate fires at once when everybody signalled
			s.WaitFor(400*time.Millisecond, func(e *sim.Event) bool { return false })
			return false
		}
		// next hand armed and confirmed inside the settled callback of the coming hand
		if forceNoHold || choose.Chance(c.Ch, "ctl.setup.cb", 8) {
			setupInCB = true
			raceWindow = true
			holdCB = forceNoHold == false && choose.Chance(c.Ch, "ctl.setup.cb.hold", 50)
			s.Label("setup_and_signals_in_settled_cb")
			if holdCB {
				s.Label("settled_cb_held_open")
			}
			nontrivial = true
			return true
		}
		// close inside the settled callback of the coming hand (= during the continue delay)
		if choose.Chance(c.Ch, "ctl.close.cb", 8) {
			closeInCB = true
			breakBeforeClose = choose.Chance(c.Ch, "ctl.close.cb.break", 50)
			control = "close_in_settled_cb"
			s.FenceWait = 400 * time.Millisecond
			l.external = true
		}
		return true
	}
	o.AfterHand = func(s *sim.Sim, h *sim.Hand) {
		if raceWindow {
			s.WaitFor(300*time.Millisecond, func(e *sim.Event) bool { return false })
			s.Label(fmt.Sprintf("hands_%d", len(s.Hands)))
			c.St.Case(s.Labels(), true, traceOf(s), sampleOf(s))
			c.End()
		}
		if (delayOp == "close" || delayOp == "release" || delayOp == "break" || delayOp == "break_close") && h.SettledT != nil {
			// whichever of the operation and the delayed continue step came first, no hand may
			// open now; if the continue step won, the gate is armed: complete it and watch
			if h.Outcome == "gate" {
				if opCertainlyFirst {
					c.Failf("C07.setup-after-"+delayOp, "%s took effect %d00 ms into the 1 s continue delay (certainly before the continue step), but the next hand was set up", delayOp, delayOffset)
				}
				s.Label("delay_op_after_continue_step")
				s.Deliver(s.PlanSignals(0))
			} else {
				s.Label("delay_op_before_continue_step")
				if delayOp == "break" && h.Outcome != "paused" {
					c.Failf("C07.no-pause-on-break", "the level became a break %d00 ms into the continue delay; afterwards the table did: %s (status %s)", delayOffset, h.Outcome, h.After.State.Status)
				}
			}
			s.WaitFor(500*time.Millisecond, func(e *sim.Event) bool { return false })
			s.Quiesce(300 * time.Millisecond)
			s.Drain()
			endNow = true
			return
		}
		if control == "close_in_settled_cb" && h.SettledT != nil {
			s.Label("close_in_settled_cb")
			if breakBeforeClose {
				s.Label("close_in_settled_cb_on_a_break")
			}
			nontrivial = true
			s.Drain()
			noOpenAfter, noOpenWhy = s.EventsTotal(), "closed"
			if h.Outcome == "gate" {
				c.Failf("C07.setup-after-close", "the table was closed during the continue delay but the next hand was set up")
			}
			// make sure nothing opens by itself
			s.WaitFor(300*time.Millisecond, func(e *sim.Event) bool { return false })
			control = ""
			return
		}
		if s.LabelSet["between_reserve"] || s.LabelSet["between_leave"] || s.LabelSet["between_rebuy"] {
			changedBetween = true
		}
		if handsInARow >= 3 && changedBetween {
			nontrivial = true
			s.Label("three_hands_with_change")
		}
		// repeated set-up while a hand is running is exercised through AtDecision below
	}
	hooks.AtDecision = func(s *sim.Sim, d *sim.Decision) {
		if choose.Chance(c.Ch, "ctl.setup.inhand", 3) {
			// a set-up call while a hand runs must not open a second hand
			t := s.Now()
			m := map[string]int{}
			for i, id := range sim.LivePlayers(t) {
				m[id] = i
			}
			gc := t.State.GameCount + c.Ch.Int("ctl.setup.gc", 0, 1)
			inhandSetupAt = time.Now()
			s.API.SetUpTableGame(gc, m)
			// consume the decorator's fence for this set-up here, so that it is not mistaken for the next hand's
			s.WaitFor(s.StepWait, func(e *sim.Event) bool { return e.Kind == "gate" })
			s.GateArmed = nil
			// no signals: a completed gate calls tableGameOpen on its own goroutine, which can
			// lose the race for the engine lock until the hand is over and then legitimately
			// opens the next hand at once (an external trigger taking effect after settlement);
			// the pending set-up is superseded by the engine's own one after the hand
			s.Label("setup_while_hand_runs")
			nontrivial = true
			c.Ch.Note("  SetUpTableGame(%d) while the hand runs", gc)
		}
	}
	var s *sim.Sim
	if interval > 0 {
		o.MinHands, o.MaxHands = 1, 3
		cfg := sim.GenConfig(c.Ch, o.Gen)
		cfg.Interval = interval
		s = RunHistoryCfg(c, cfg, o, hooks, nil)
		s.Label("real_continue_delay")
	} else {
		s = RunHistory(c, o, hooks, nil)
	}
	s.Label(fmt.Sprintf("hands_%d", len(s.Hands)))
	if s.Cfg.Mode == pokertable.CompetitionMode_MTT {
		s.Label("mtt_balancing")
	}
	c.St.Case(s.Labels(), nontrivial, traceOf(s), sampleOf(s))
}

var c07iStats = ev.New("C07", "c07i")

// the same histories with a real 1 s continue delay and operations inside it
func TestC07Interval(t *testing.T) {
	run.Property(t, "C07", "c07i", c07iStats, run.Scale(4, 16), func(c *run.Ctx) { c07BodyIv(c, 1) })
}

var c07pStats = ev.New("C07", "c07p")

// TestC07Pinned keeps the recorded finding demonstrated: histories in which every hand
// has its successor set up and confirmed from inside the settled notification, repeated
// until the open races with the continue step.
func TestC07Pinned(t *testing.T) {
	defer c07pStats.Write()
	const sig = "C07.gate-completes-during-continue-step"
	if run.IsKnown("C07", sig) == nil {
		return
	}
	for attempt := 0; attempt < 200 && len(c07pStats.Known) == 0; attempt++ {
		c := &run.Ctx{Prop: "C07", Check: "c07p", TB: t, St: c07pStats}
		c.Ch = choose.NewRecorder(seededCh7{choose.NewSplitMix(uint64(1000 + attempt))})
		c.RunBody(func(c *run.Ctx) { c07BodyOpt(c, 0, true) })
	}
	c07pStats.Case([]string{"pinned_gate_completes_during_continue_step"}, true, "pinned", nil)
	c07pStats.Case([]string{"pinned_gate_completes_during_continue_step"}, true, "pinned2", nil)
}

type seededCh7 struct{ r *choose.SplitMix }

func (s seededCh7) Int(label string, lo, hi int) int {
	if hi <= lo {
		return lo
	}
	return lo + s.r.Intn(hi-lo+1)
}

func TestC07(t *testing.T) {
	run.Property(t, "C07", "c07", c07Stats, run.Scale(20, 200), c07Body)
}
