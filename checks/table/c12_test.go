package table

import (
	"fmt"
	"sync"
	"testing"
	"time"

	"github.com/weedbox/pokerface"
	"github.com/weedbox/pokertable"

	"verif/harness/choose"
	"verif/harness/ev"
	"verif/harness/run"
	"verif/harness/sim"
)

var c12Stats = ev.New("C12", "c12")

func sameBlind(a pokertable.TableBlindState, b pokertable.TableBlindState) bool {
	return a.Level == b.Level && a.Ante == b.Ante && a.Dealer == b.Dealer && a.SB == b.SB && a.BB == b.BB
}

func expectedBlind(gs *pokerface.GameState, p *pokerface.PlayerState) int64 {
	has := func(pos string) bool {
		for _, x := range p.Positions {
			if x == pos {
				return true
			}
		}
		return false
	}
	switch {
	case gs.Meta.Blind.BB > 0 && has("bb"):
		return gs.Meta.Blind.BB
	case gs.Meta.Blind.SB > 0 && has("sb"):
		return gs.Meta.Blind.SB
	case gs.Meta.Blind.Dealer > 0 && has("dealer"):
		return gs.Meta.Blind.Dealer
	}
	return 0
}

func c12Body(c *run.Ctx) { c12BodyIv(c, 0) }

// c12BodyIv: interval > 0 gives the table a real continue delay; a break may then start
// inside it ("... the table pauses after the current hand"), judged only when the update
// returned less than 0.9 s after the settlement was published (certainly before the step).
func c12BodyIv(c *run.Ctx, interval int) {
	nontrivial := false
	skipPause := false
	var inForce pokertable.TableBlindState // in force for the hand about to open / running
	var latest pokertable.TableBlindState  // last values the harness set
	level := 1
	anteSeen, blindsRequested := false, false
	stackAfterAnte := map[int]int64{}
	drawBlind := func(s *sim.Sim, short bool) pokertable.TableBlindState {
		// a new level, or corrected amounts within the same level number
		if level < 1 || choose.Chance(c.Ch, "blind.newlevel", 60) {
			level++
		} else {
			s.Label("update_same_level_number")
		}
		bb := int64(2 * (1 + c.Ch.Int("blind.bb", 0, 30)))
		b := pokertable.TableBlindState{Level: level, BB: bb, SB: bb / 2}
		if choose.Chance(c.Ch, "blind.ante", 40) {
			b.Ante = 1 + int64(c.Ch.Int("blind.ante.v", 0, int(bb)))
		}
		if short {
			b.SB, b.BB, b.Dealer = 0, 0, bb
			if b.Ante == 0 {
				b.Ante = 1
			}
		} else if choose.Chance(c.Ch, "blind.dealer", 10) {
			b.Dealer = 1 + int64(c.Ch.Int("blind.dealer.v", 0, int(bb)))
		}
		return b
	}
	update := func(s *sim.Sim, b pokertable.TableBlindState, where string) {
		if err := s.API.UpdateBlind(b.Level, b.Ante, b.Dealer, b.SB, b.BB); err != nil {
			c.Failf("C12.update-error", "UpdateBlind failed: %v", err)
		}
		latest = b
		c.Ch.Note("  UpdateBlind(%+v) %s", b, where)
		got := s.TE.GetTable().State.BlindState
		if got == nil || !sameBlind(*got, b) {
			c.Failf("C12.update-not-applied", "after UpdateBlind(%+v) the table's blind state is %+v", b, got)
		}
		s.Label("update_" + where)
		nontrivial = true
	}
	// an update issued from inside the callback that delivers a hand's first snapshot: the
	// hand has started (game.Start() published that snapshot) but startGame has not
	// returned yet - the earliest moment that is unambiguously "while the hand is running"
	var cbMu sync.Mutex
	var cbPlan *pokertable.TableBlindState // drawn before the hand on the test goroutine
	cbDone := false
	cbAtCreate := false
	cbGame := ""
	var hooks sim.Hooks
	hooks.Opened = func(s *sim.Sim, h *sim.Hand) {
		anteSeen, blindsRequested = false, false
		stackAfterAnte = map[int]int64{}
	}
	checkHandState := func(s *sim.Sim, t *pokertable.Table, readGBS bool) {
		gs := t.State.GameState
		if gs == nil {
			return
		}
		if gs.Meta.Ante != inForce.Ante || gs.Meta.Blind.Dealer != inForce.Dealer || gs.Meta.Blind.SB != inForce.SB || gs.Meta.Blind.BB != inForce.BB {
			c.Failf("C12.hand-meta", "hand %d is played with ante %d blinds %+v, in force at open: %+v", s.Cur.N, gs.Meta.Ante, gs.Meta.Blind, inForce)
		}
		if readGBS {
			g := t.State.GameBlindState
			if g == nil || !sameBlind(*g, inForce) {
				c.Failf("C12.game-blind-state", "hand %d publishes blind level %+v, in force at open: %+v", s.Cur.N, g, inForce)
			}
		}
	}
	responded := false
	hooks.Event = func(s *sim.Sim, e *sim.Event) {
		if e.Kind != "state" || e.Table == nil || e.Table.State.GameState == nil || s.Cur == nil || s.Cur.Opened == nil {
			return
		}
		if e.Name != pokertable.TableStateEvent_GameUpdated && e.Name != pokertable.TableStateEvent_GameSettled {
			return
		}
		checkHandState(s, e.Table, responded)
		gs := e.Table.State.GameState
		switch gs.Status.CurrentEvent {
		case "AnteRequested":
			anteSeen = true
		case "BlindsRequested":
			blindsRequested = true
			if anteSeen {
				for _, p := range gs.Players {
					want := gs.Meta.Ante
					if p.Bankroll < want {
						want = p.Bankroll
					}
					if p.Pot != want {
						c.Failf("C12.ante-charged", "hand %d: game index %d paid ante %d, expected min(ante %d, stack %d)", s.Cur.N, p.Idx, p.Pot, gs.Meta.Ante, p.Bankroll)
					}
					stackAfterAnte[p.Idx] = p.StackSize
				}
				s.Label("ante_checked")
			}
		case "ReadyRequested":
			if gs.Status.Round == "preflop" {
				if anteSeen && !blindsRequested {
					for _, p := range gs.Players {
						want := gs.Meta.Ante
						if p.Bankroll < want {
							want = p.Bankroll
						}
						if p.Pot != want {
							c.Failf("C12.ante-charged", "hand %d: game index %d paid ante %d, expected min(ante %d, stack %d)", s.Cur.N, p.Idx, p.Pot, gs.Meta.Ante, p.Bankroll)
						}
					}
					s.Label("ante_checked")
				}
				if blindsRequested {
					for _, p := range gs.Players {
						want := expectedBlind(gs, p)
						if p.InitialStackSize < want {
							want = p.InitialStackSize
						}
						if p.Wager != want {
							c.Failf("C12.blind-charged", "hand %d: game index %d (positions %v) posted %d, expected %d (blinds %+v, stack %d)", s.Cur.N, p.Idx, p.Positions, p.Wager, want, gs.Meta.Blind, p.InitialStackSize)
						}
					}
					s.Label("blinds_checked")
				} else {
					s.Label("collection_skipped")
				}
			}
		}
	}
	hooks.AfterAct = func(s *sim.Sim, a *sim.ActionRec) {
		if a.Err == nil {
			responded = true // startGame has certainly returned: GameBlindState is set
		}
	}
	hooks.AtDecision = func(s *sim.Sim, d *sim.Decision) {
		cbMu.Lock()
		if cbDone && cbPlan != nil {
			latest = *cbPlan
			if cbAtCreate {
				c.Ch.Note("  UpdateBlind(%+v) while the backend was creating hand %d", latest, s.Cur.N)
				s.Label("update_while_hand_is_created")
			} else {
				c.Ch.Note("  UpdateBlind(%+v) inside the callback of hand %d's first snapshot", latest, s.Cur.N)
				s.Label("update_in_first_snapshot_callback")
			}
			nontrivial = true
			cbPlan = nil
		}
		cbMu.Unlock()
		if choose.Chance(c.Ch, "blind.inhand", 8) {
			b := drawBlind(s, s.Cfg.Rule == pokertable.CompetitionRule_ShortDeck)
			if choose.Chance(c.Ch, "blind.break", 15) {
				b = pokertable.TableBlindState{Level: -1, Ante: latest.Ante, Dealer: latest.Dealer, SB: latest.SB, BB: latest.BB}
			}
			update(s, b, "inhand")
		}
	}
	o := HistOpts{
		Gen:          sim.GenOpts{ShortStacks: 30, SitOutPct: 10, AnteePct: 40, DealerBlindPct: 10, NoSBPct: 10, MaxPlayers: 7},
		MinHands:     1,
		MaxHands:     run.Scale(5, 9),
		BetweenOps:   1,
		BetweenPct:   20,
		Mem:          sim.MemOpts{NewPlayer: 3, Rebuy: 4, Leave: 1, KeepSitting: 10, MaxNewID: 12, TopupAnyone: true},
		RearmOnLeave: true,
	}
	if interval > 0 {
		hooks.Settled = func(s *sim.Sim, h *sim.Hand) {
			skipPause = false
			if latest.Level == -1 || !choose.Chance(c.Ch, "blind.indelay", 60) {
				return
			}
			time.Sleep(time.Duration(c.Ch.Int("blind.indelay.offset", 0, 6)) * 100 * time.Millisecond)
			b := pokertable.TableBlindState{Level: -1, Ante: latest.Ante, Dealer: latest.Dealer, SB: latest.SB, BB: latest.BB}
			if choose.Chance(c.Ch, "blind.indelay.level", 30) {
				b = drawBlind(s, s.Cfg.Rule == pokertable.CompetitionRule_ShortDeck)
			}
			update(s, b, "in_continue_delay")
			if time.Since(h.SettledAt) >= 900*time.Millisecond {
				skipPause = true
				c.St.Exclude("update_not_certainly_before_the_continue_step", 1)
			} else if b.Level == -1 {
				s.Label("break_in_continue_delay")
			}
		}
	}
	o.Prepare = func(s *sim.Sim) {
		inForce = s.Cfg.Blind
		latest = s.Cfg.Blind
		level = s.Cfg.Blind.Level
		// moment 1: while the backend creates the hand (inside startGame, after the hand
		// options were built): the harness owns this point through its backend wrapper
		if orig := s.BE.DeckFn; orig != nil {
			s.BE.DeckFn = func(opts *pokerface.GameOptions, gs *pokerface.GameState) []string {
				cbMu.Lock()
				if cbPlan != nil && !cbDone && cbAtCreate {
					cbDone = true
					b := *cbPlan
					s.TE.UpdateBlind(b.Level, b.Ante, b.Dealer, b.SB, b.BB)
				}
				cbMu.Unlock()
				return orig(opts, gs)
			}
		}
		// moment 2: inside the callback that delivers the hand's first snapshot
		s.InCallbackLive = func(sm *sim.Sim, name string, live, clone *pokertable.Table) {
			if name != pokertable.TableStateEvent_GameUpdated || clone.State.GameState == nil {
				return
			}
			cbMu.Lock()
			defer cbMu.Unlock()
			if cbPlan == nil || cbDone || cbAtCreate || clone.State.GameState.GameID == cbGame {
				return
			}
			// first snapshot of a new hand
			cbDone = true
			b := *cbPlan
			sm.TE.UpdateBlind(b.Level, b.Ante, b.Dealer, b.SB, b.BB)
		}
	}
	// negative obligation: while the level is a break, no hand opens
	expectNoOpen := func(s *sim.Sim, why string) {
		plan := s.PlanSignals(0)
		smBefore := len(s.SM.Calls())
		s.Deliver(plan)
		ev := s.WaitFor(250*time.Millisecond, func(ev *sim.Event) bool {
			return ev.Table != nil && (ev.Table.State.Status == pokertable.TableStateStatus_TableGameOpened || ev.Table.State.Status == pokertable.TableStateStatus_TableGamePlaying)
		})
		if ev != nil {
			c.Failf("C12.opened-on-break", "a hand opened although the blind level is a break (%s)", why)
		}
		for _, cl := range s.SM.Calls()[smBefore:] {
			if cl.Op == "RotatePositions" || cl.Op == "InitPositions" {
				c.Failf("C12.rotated-on-break", "button moved although the blind level is a break (%s)", why)
			}
		}
		s.Label("break_no_open")
	}
	o.BeforeHand = func(s *sim.Sim, n int) bool {
		responded = false
		if n > 1 && choose.Chance(c.Ch, "blind.between", 35) {
			if choose.Chance(c.Ch, "blind.break.between", 20) {
				b := pokertable.TableBlindState{Level: -1, Ante: latest.Ante, Dealer: latest.Dealer, SB: latest.SB, BB: latest.BB}
				update(s, b, "break_between")
				expectNoOpen(s, "break set between hands, gate armed")
				// resume: a new level and a fresh set-up from outside
				nb := drawBlind(s, s.Cfg.Rule == pokertable.CompetitionRule_ShortDeck)
				update(s, nb, "resume")
				if len(sim.LivePlayers(s.Now())) < 2 || !s.SetupGate(nil) {
					return false
				}
				s.Label("resume_from_break")
			} else {
				update(s, drawBlind(s, s.Cfg.Rule == pokertable.CompetitionRule_ShortDeck), "between")
			}
		}
		inForce = latest
		cbMu.Lock()
		cbPlan, cbDone = nil, false
		if g := s.Now().State.GameState; g != nil {
			cbGame = g.GameID
		}
		if choose.Chance(c.Ch, "blind.incallback", 20) {
			b := drawBlind(s, s.Cfg.Rule == pokertable.CompetitionRule_ShortDeck)
			cbPlan = &b
			cbAtCreate = choose.Chance(c.Ch, "blind.atcreate", 50)
		}
		cbMu.Unlock()
		return true
	}
	o.AfterHand = func(s *sim.Sim, h *sim.Hand) {
		if h.SettledT == nil {
			return
		}
		// what the table handed to the backend when the hand was created
		if h.BEHand != nil && h.BEHand.Opts != nil {
			op := h.BEHand.Opts
			if op.Ante != inForce.Ante || op.Blind.Dealer != inForce.Dealer || op.Blind.SB != inForce.SB || op.Blind.BB != inForce.BB {
				c.Failf("C12.create-options", "hand %d created with ante %d blinds %+v, in force at open: %+v", h.N, op.Ante, op.Blind, inForce)
			}
		}
		if latest.Level == -1 && !skipPause {
			// break set while the hand was running (or inside the continue delay): the table pauses after it
			if h.Outcome != "paused" {
				c.Failf("C12.no-pause-on-break", "level became a break during hand %d but afterwards the table did: %s (status %s)", h.N, h.Outcome, h.After.State.Status)
			}
			s.Label("break_after_hand")
			nontrivial = true
		}
	}
	var s *sim.Sim
	if interval > 0 {
		o.MinHands, o.MaxHands = 1, 3
		cfg := sim.GenConfig(c.Ch, o.Gen)
		cfg.Interval = interval
		cfg.ViaManager = facadeViaManager
		s = RunHistoryCfg(c, cfg, o, hooks, nil)
		s.Label("real_continue_delay")
	} else {
		s = RunHistory(c, o, hooks, nil)
	}
	c.St.Case(s.Labels(), nontrivial, traceOf(s), sampleOf(s))
}

var c12iStats = ev.New("C12", "c12i")

func TestC12Interval(t *testing.T) {
	run.Property(t, "C12", "c12i", c12iStats, run.Scale(5, 20), func(c *run.Ctx) { c12BodyIv(c, 1) })
}

// created on a break: starts paused, and stays without a hand
func c12CreatedOnBreak(c *run.Ctx) {
	cfg := sim.GenConfig(c.Ch, sim.GenOpts{MaxPlayers: 5, ViaCreatePct: 50})
	cfg.Blind.Level = -1
	s := sim.New(c.Ch, cfg, sim.Hooks{})
	c.Defer(s.Finish)
	if s.CreateErr != nil {
		c.Failf("C12.create-on-break-refused", "creation on a break refused: %v", s.CreateErr)
	}
	t := s.Now()
	if t.State.Status != pokertable.TableStateStatus_TablePausing {
		c.Failf("C12.created-on-break-status", "table created with level -1 has status %s", t.State.Status)
	}
	c.St.Case([]string{"created_on_break"}, true, fmt.Sprintf("cob%d%v", cfg.Seats, cfg.ViaCreate), nil)
}

func TestC12(t *testing.T) {
	run.Property(t, "C12", "c12", c12Stats, run.Scale(20, 200), func(c *run.Ctx) {
		if choose.Chance(c.Ch, "createdonbreak", 5) {
			c12CreatedOnBreak(c)
			return
		}
		c12Body(c)
	})
}
