package table

import (
	"fmt"
	"sort"
	"testing"

	"github.com/weedbox/pokertable"

	"verif/harness/ev"
	"verif/harness/run"
	"verif/harness/sim"
)

var c05Stats = ev.New("C05", "c05")

func strictlyBetween(d, bb, seat, n int) bool {
	if d < 0 || bb < 0 || d == bb {
		return false
	}
	for s := (d + 1) % n; s != bb; s = (s + 1) % n {
		if s == seat {
			return true
		}
	}
	return false
}

// eligModel is the three-valued eligibility model written from the statement.
type eligModel struct {
	dealtPrev map[string]bool // dealt into the most recent hand
	flagged   map[string]bool // got the seat / re-bought / sat in strictly between button and BB after positions were set
	missed    map[string]int  // consecutive opened hands missed while seated-in with chips
	everDealt map[string]bool
}

func c05Body(c *run.Ctx) {
	nontrivial := false
	m := &eligModel{dealtPrev: map[string]bool{}, flagged: map[string]bool{}, missed: map[string]int{}, everDealt: map[string]bool{}}
	positionsSet := false
	var lastD, lastBB, nSeats int
	lastSB := -1
	var hooks sim.Hooks
	rule := ""
	hooks.Opened = func(s *sim.Sim, h *sim.Hand) {
		t := h.Opened
		rule = t.Meta.Rule
		nSeats = len(t.State.SeatMap)
		if rule == pokertable.CompetitionRule_Default && !buttonsUsable(t) {
			c.St.Exclude("history reached button seats of a known C04 finding", 1)
			c.St.Case(append(s.Labels(), "excluded_c04_known"), false, "", nil)
			c.End()
		}
		D, BB := t.State.CurrentDealerSeat, t.State.CurrentBBSeat
		dealtN := 0
		eligibleAll := 0
		diag := func() string {
			return fmt.Sprintf("%s | sm: %s", tableSummary(t), smDump(s.SeatManager()))
		}
		for _, p := range t.State.PlayerStates {
			dealt := p.IsParticipated
			if dealt {
				dealtN++
			}
			live := p.IsIn && p.Bankroll > 0
			if live {
				eligibleAll++
			}
			inH := rule == pokertable.CompetitionRule_Default && strictlyBetween(D, BB, p.Seat, nSeats)
			// The waiting rule is evaluated against the dead-button dealer (previous
			// small-blind seat). When the hand falls back to heads-up, or comes from
			// heads-up, the published dealer differs from it; the statement does not say
			// which of the two "button" means there, so both outcomes are accepted.
			inRing := inH
			if rule == pokertable.CompetitionRule_Default && positionsSet && lastSB >= 0 {
				inRing = strictlyBetween(lastSB, BB, p.Seat, nSeats)
			}
			switch {
			case !live:
				if dealt {
					c.Failf("C05.dealt-not-eligible", "hand %d: %s is dealt in although seated-in=%v bankroll=%d; %s", h.N, p.PlayerID, p.IsIn, p.Bankroll, diag())
				}
				m.missed[p.PlayerID] = 0
			case m.dealtPrev[p.PlayerID]:
				if !dealt {
					c.Failf("C05.continuity", "hand %d: %s was dealt into the previous hand, still has %d chips and is seated-in, but is not dealt in; %s", h.N, p.PlayerID, p.Bankroll, diag())
				}
			case inH != inRing && !m.dealtPrev[p.PlayerID]:
				s.Label("ambiguous_hu_ring")
			case !inH:
				if !dealt {
					sig := "C05.eligible-not-dealt"
					c.Failf(sig, "hand %d: %s is seated-in with %d chips at seat %d, not between button %d and big blind %d, but is not dealt in; %s", h.N, p.PlayerID, p.Bankroll, p.Seat, D, BB, diag())
				}
				if positionsSet && !m.everDealt[p.PlayerID] {
					s.Label("newcomer_outside")
				}
			case m.flagged[p.PlayerID]:
				if dealt {
					c.Failf("C05.waiting-dealt-in", "hand %d: %s took seat %d strictly between button and big blind after positions were set and is still between button %d and big blind %d, but is dealt in; %s", h.N, p.PlayerID, p.Seat, D, BB, diag())
				}
				s.Label("newcomer_between")
				nontrivial = true
			default:
				s.Label("ambiguous")
			}
			if live && !dealt {
				m.missed[p.PlayerID]++
				s.Label(fmt.Sprintf("waited_%d", m.missed[p.PlayerID]))
				if m.missed[p.PlayerID] > 3 {
					c.Failf("C05.missed-more-than-three", "hand %d: %s has been seated-in with chips but not dealt in for %d hands in a row; %s", h.N, p.PlayerID, m.missed[p.PlayerID], diag())
				}
			} else if dealt {
				m.missed[p.PlayerID] = 0
			}
		}
		if dealtN < 2 {
			c.Failf("C05.fewer-than-two", "hand %d opened with %d dealt-in players; %s", h.N, dealtN, diag())
		}
		ids := []string{}
		for _, p := range t.State.PlayerStates {
			if p.IsParticipated {
				ids = append(ids, p.PlayerID)
			}
		}
		sort.Strings(ids)
		gm := append([]string(nil), h.M...)
		sort.Strings(gm)
		if fmt.Sprint(ids) != fmt.Sprint(gm) {
			c.Failf("C05.participated-vs-list", "hand %d: dealt-in flags %v differ from the hand's player list %v", h.N, ids, gm)
		}
		if dealtN != eligibleAll {
			nontrivial = true
			s.Label("someone_waited_or_sat_out")
		}
		// roll the model forward
		m.dealtPrev = map[string]bool{}
		for _, p := range t.State.PlayerStates {
			if p.IsParticipated {
				m.dealtPrev[p.PlayerID] = true
				m.everDealt[p.PlayerID] = true
				delete(m.flagged, p.PlayerID) // the rotation has moved past them
			}
		}
		positionsSet = true
		lastD, lastBB = D, BB
		lastSB = t.State.CurrentSBSeat
	}
	onOp := func(s *sim.Sim, op *sim.OpRec) {
		if op.Err != nil {
			return
		}
		after := map[string]*pokertable.TablePlayerState{}
		for _, p := range op.After.State.PlayerStates {
			after[p.PlayerID] = p
		}
		before := map[string]*pokertable.TablePlayerState{}
		for _, p := range op.Before.State.PlayerStates {
			before[p.PlayerID] = p
		}
		for id := range before {
			if after[id] == nil {
				delete(m.dealtPrev, id)
				delete(m.flagged, id)
				delete(m.missed, id)
				delete(m.everDealt, id)
			}
		}
		mark := func(id string) {
			p := after[id]
			if p == nil {
				return
			}
			if positionsSet && rule == pokertable.CompetitionRule_Default && strictlyBetween(lastD, lastBB, p.Seat, nSeats) {
				m.flagged[id] = true
			}
		}
		switch op.Kind {
		case "reserve":
			mark(op.IDs[0])
			if positionsSet {
				s.Label("arrival_after_first_hand")
			} else {
				s.Label("arrival_before_first_hand")
			}
		case "rebuy":
			id := op.IDs[0]
			if b := before[id]; b != nil && b.Bankroll == 0 {
				// a busted player who re-buys: same terms as a newcomer
				delete(m.dealtPrev, id)
				mark(id)
				s.Label("rebuy_after_bust")
				nontrivial = true
			}
		case "join":
			id := op.IDs[0]
			if b := before[id]; b != nil && !b.IsIn {
				mark(id)
				if positionsSet {
					s.Label("sitout_then_join")
				}
			}
		case "update":
			for _, j := range op.Joins {
				mark(j.PlayerID)
			}
		}
	}
	o := HistOpts{
		Gen:          sim.GenOpts{ShortStacks: 45, SitOutPct: 25, ViaCreatePct: 20, RandomSeatPct: 15, AnteePct: 15, Rules: []int{5, 1}},
		MinHands:     3,
		MaxHands:     run.Scale(10, 25),
		BetweenOps:   3,
		BetweenPct:   70,
		Mem:          sim.MemOpts{NewPlayer: 5, NewRandom: 2, JoinSitter: 3, Rebuy: 5, Addon: 2, Leave: 3, KeepSitting: 30, MaxNewID: 14},
		InHandOps:    6,
		InHandMem:    sim.MemOpts{NewPlayer: 4, NewRandom: 1, JoinSitter: 3, Rebuy: 3, Addon: 3, Leave: 1, KeepSitting: 30, MaxNewID: 14},
		RearmOnLeave: true,
	}
	o.AfterHand = func(s *sim.Sim, h *sim.Hand) {
		if h.After == nil {
			return
		}
		// busted in this hand: not "dealt into the previous hand with chips" any more
		for _, p := range h.After.State.PlayerStates {
			if p.Bankroll == 0 {
				delete(m.dealtPrev, p.PlayerID)
			}
		}
	}
	s := RunHistory(c, o, hooks, onOp)
	c.St.Case(s.Labels(), nontrivial, traceOf(s), sampleOf(s))
}

func TestC05(t *testing.T) {
	run.Property(t, "C05", "c05", c05Stats, run.Scale(20, 200), c05Body)
}
