package table

import (
	"fmt"
	"testing"
	"time"

	"github.com/weedbox/pokertable"

	"verif/harness/backend"
	"verif/harness/choose"
	"verif/harness/ev"
	"verif/harness/run"
	"verif/harness/sim"
)

// ledger is the C01 reference model: chips in, chips out, per-hand results.
type ledger struct {
	c       *run.Ctx
	in, out int64
	topups  map[string]int64 // accepted top-ups since the current hand opened
	gone    map[string]bool  // departed since the current hand opened (a later namesake is a new player)
}

func newLedger(c *run.Ctx, s *sim.Sim) *ledger {
	l := &ledger{c: c, topups: map[string]int64{}, gone: map[string]bool{}}
	return l
}

// onOp checks the per-operation conservation rule and updates the ledger.
func (l *ledger) onOp(s *sim.Sim, op *sim.OpRec) {
	if op.Panic != nil {
		// a panic inside a membership operation is C03's business; for C01 the
		// ledger is re-synchronised from the observed rosters below
		s.Label("op_panic")
	}
	before := map[string]*pokertable.TablePlayerState{}
	for _, p := range op.Before.State.PlayerStates {
		before[p.PlayerID] = p
	}
	after := map[string]*pokertable.TablePlayerState{}
	for _, p := range op.After.State.PlayerStates {
		after[p.PlayerID] = p
	}
	// expected top-up per player
	top := map[string]int64{}
	if op.Err == nil {
		switch op.Kind {
		case "rebuy", "redeem":
			top[op.IDs[0]] = op.Chips
		}
	}
	newChips := map[string]int64{}
	switch op.Kind {
	case "reserve":
		newChips[op.IDs[0]] = op.Chips
	case "update":
		for _, j := range op.Joins {
			newChips[j.PlayerID] = j.RedeemChips
		}
	}
	for id, b := range before {
		a, still := after[id]
		if !still && op.Err != nil && op.Kind != "update" {
			// (a failing batch update that applied its leave half is the recorded C03 finding)
			l.c.Failf("C01.refused-departure-took-chips", "%s was refused, yet %s and the %d chips in front of him are gone although nobody departed", op.String(), id, b.Bankroll)
		}
		if !still && op.Err == nil && !(inList(op.IDs, id) && (op.Kind == "leave" || op.Kind == "update")) {
			// nobody asked for this player to leave: he and his chips were destroyed
			l.c.Failf("C01.unnamed-player-gone", "%s succeeded and %s, whom it does not name as leaving, is gone with the %d chips in front of him", op.String(), id, b.Bankroll)
		}
		if !still {
			// departed (accepted leave, or a partially applied failing batch): took b.Bankroll along
			l.out += b.Bankroll
			l.gone[id] = true
			delete(l.topups, id)
			if b.Bankroll > 0 {
				s.Label("leave_with_chips")
			} else {
				s.Label("leave_busted")
			}
			continue
		}
		want := b.Bankroll + top[id]
		if a.Bankroll != want {
			l.c.Failf("C01.op-bankroll", "after %s player %s has bankroll %d, expected %d (before %d, top-up %d)", op.String(), id, a.Bankroll, want, b.Bankroll, top[id])
		}
		if top[id] != 0 {
			l.in += top[id]
			l.topups[id] += top[id]
			if op.InHand {
				if op.Kind == "rebuy" {
					s.Label("rebuy_inhand")
				} else {
					s.Label("addon_inhand")
				}
				if s.Cur != nil && inList(s.Cur.M, id) {
					s.Label("topup_participant_inhand")
				}
			} else {
				s.Label(op.Kind + "_between")
			}
		}
	}
	for id, a := range after {
		if _, was := before[id]; was {
			continue
		}
		want, ok := newChips[id]
		if !ok {
			l.c.Failf("C01.op-phantom", "after %s an unrequested player %s appeared", op.String(), id)
		}
		if a.Bankroll != want {
			l.c.Failf("C01.op-buyin", "after %s new player %s has bankroll %d, bought in for %d", op.String(), id, a.Bankroll, want)
		}
		l.in += want
	}
}

func inList(ss []string, x string) bool {
	for _, s := range ss {
		if s == x {
			return true
		}
	}
	return false
}

// checkSum: whenever no hand is in progress the bankrolls sum to in - out.
func (l *ledger) checkSum(where string, t *pokertable.Table) {
	if got, want := sumBankroll(t), l.in-l.out; got != want {
		l.c.Failf("C01.ledger-sum", "%s: seated bankrolls sum to %d but chips brought in %d minus taken out %d = %d; %s", where, got, l.in, l.out, want, tableSummary(t))
	}
}

// checkHand: a completed hand moved chips only between its participants, each
// by exactly their result; everyone else untouched.
func (l *ledger) checkHand(s *sim.Sim, h *sim.Hand) {
	if h.Opened == nil || h.SettledT == nil || h.After == nil {
		return
	}
	res := h.SettledT.State.GameState.Result
	if res == nil {
		l.c.Failf("C01.no-result", "settled snapshot of hand %d has no result", h.N)
	}
	if len(res.Players) != len(h.M) {
		l.c.Failf("C01.result-len", "hand %d: %d result entries for %d participants", h.N, len(res.Players), len(h.M))
	}
	// reference result: successful backend calls replayed on a pure native backend
	var ref map[int]int64
	if h.BEHand != nil {
		if fin, err := backend.Replay(h.BEHand); err == nil && fin.Result != nil {
			ref = map[int]int64{}
			for _, r := range fin.Result.Players {
				ref[r.Idx] = r.Changed
			}
		} else if err != nil {
			l.c.Failf("C01.replay", "hand %d: pure replay of the successful backend calls failed: %v", h.N, err)
		}
	}
	open := map[string]int64{}
	for _, p := range h.Opened.State.PlayerStates {
		open[p.PlayerID] = p.Bankroll
	}
	changed := map[string]int64{}
	var sum int64
	pots := len(h.SettledT.State.GameState.Status.Pots)
	if pots >= 2 {
		s.Label("sidepot")
	}
	for _, pr := range res.Pots {
		if len(pr.Winners) >= 2 {
			s.Label("splitpot")
		}
	}
	for _, r := range res.Players {
		if r.Idx < 0 || r.Idx >= len(h.M) {
			l.c.Failf("C01.result-idx", "hand %d: result index %d out of range", h.N, r.Idx)
		}
		id := h.M[r.Idx]
		changed[id] = r.Changed
		sum += r.Changed
		if ref != nil && ref[r.Idx] != r.Changed {
			l.c.Failf("C01.result-vs-replay", "hand %d: player %s result %d differs from pure replay %d", h.N, id, r.Changed, ref[r.Idx])
		}
		if r.Final != open[id]+r.Changed {
			l.c.Failf("C01.final", "hand %d: player %s final %d != bankroll at open %d + changed %d", h.N, id, r.Final, open[id], r.Changed)
		}
	}
	if sum != 0 {
		l.c.Failf("C01.zero-sum", "hand %d: results sum to %d", h.N, sum)
	}
	for _, p := range h.After.State.PlayerStates {
		o, was := open[p.PlayerID]
		if !was || l.gone[p.PlayerID] {
			continue // arrived during the hand: covered by the per-op rule
		}
		want := o + l.topups[p.PlayerID] + changed[p.PlayerID]
		if p.Bankroll != want {
			part := inList(h.M, p.PlayerID)
			sig := "C01.hand-nonparticipant"
			if part {
				sig = "C01.hand-participant"
				if l.topups[p.PlayerID] != 0 {
					sig = "C01.hand-participant-topup"
				}
			}
			l.c.Failf(sig, "hand %d: player %s (dealt in=%v) has %d after the hand; bankroll at open %d + top-ups during the hand %d + result %d = %d",
				h.N, p.PlayerID, part, p.Bankroll, o, l.topups[p.PlayerID], changed[p.PlayerID], want)
		}
		if p.Bankroll == 0 && o > 0 {
			s.Label("bust")
		}
	}
	l.topups = map[string]int64{}
	l.gone = map[string]bool{}
}

var c01Stats = ev.New("C01", "c01")

func c01Body(c *run.Ctx) {
	var l *ledger
	o := HistOpts{
		Gen:          sim.GenOpts{ShortStacks: 35, SitOutPct: 15, ViaCreatePct: 25, RandomSeatPct: 15, AnteePct: 40, DealerBlindPct: 15, NoSBPct: 10},
		MinHands:     1,
		MaxHands:     run.Scale(6, 12),
		BetweenOps:   3,
		BetweenPct:   60,
		Mem:          sim.MemOpts{NewPlayer: 4, NewRandom: 1, JoinSitter: 2, Rebuy: 4, Addon: 3, Leave: 3, Invalid: 1, KeepSitting: 20, MaxNewID: 14, TopupAnyone: true, SkipInvalid: map[int]bool{5: true}},
		InHandOps:    12,
		InHandMem:    sim.MemOpts{NewPlayer: 2, NewRandom: 1, JoinSitter: 1, Rebuy: 4, Addon: 4, Leave: 2, Invalid: 1, KeepSitting: 30, MaxNewID: 14, TopupAnyone: !excluded("C01.hand-participant-topup"), SkipInvalid: map[int]bool{5: true}},
		RearmOnLeave: true,
	}
	o.Prepare = func(s *sim.Sim) {
		l = newLedger(c, s)
		for _, p := range s.Now().State.PlayerStates {
			l.in += p.Bankroll
		}
		// buy-ins are what the configuration asked for
		var want int64
		for _, p := range s.Cfg.Players {
			want += p.Chips
		}
		if l.in != want {
			c.Failf("C01.create-buyin", "table created with %d chips for buy-ins of %d", l.in, want)
		}
		if s.Cfg.Blind.Ante > 0 {
			s.Label("ante")
		}
		if s.Cfg.Blind.Dealer > 0 {
			s.Label("dealer_blind")
		}
		if s.Cfg.Rule == pokertable.CompetitionRule_ShortDeck {
			s.Label("short_deck")
		}
		s.Label(fmt.Sprintf("seats_%d", s.Cfg.Seats))
	}
	o.AfterHand = func(s *sim.Sim, h *sim.Hand) {
		if h.After == nil {
			return
		}
		l.checkHand(s, h)
		l.checkSum(fmt.Sprintf("after hand %d", h.N), h.After)
	}
	// a re-buy issued from another goroutine at the moment the hand opens (the gate fires on
	// its own goroutine): whichever side of the open it lands on, the chips must arrive
	type racer struct {
		id     string
		chips  int64
		before int64
		done   chan error
	}
	var rc *racer
	racerPending := false
	settleRacer := func(s *sim.Sim, h *sim.Hand) {
		if rc == nil {
			return
		}
		r := rc
		rc = nil
		var err error
		select {
		case err = <-r.done:
		case <-time.After(s.StepWait):
			if !pokertable.VerifTryLock(s.TE) {
				// the open was refused and the engine sits in its 30 s retry loop holding its lock
				// (C04 / C08 findings): the re-buy waits behind it; nothing to judge for C01
				s.Label("racing_rebuy_blocked_behind_open_retry")
				racerPending = true
				return
			}
			c.Failf("C01.racing-rebuy-stuck", "a re-buy of %s issued while hand %d was opening did not return although the engine lock is free", r.id, len(s.Hands))
		}
		c.Ch.Note("  racing re-buy %s +%d -> %v", r.id, r.chips, err)
		if err != nil {
			c.Failf("C01.racing-rebuy-refused", "a re-buy of seated player %s issued while a hand was opening was refused: %v", r.id, err)
		}
		l.in += r.chips
		s.Label("rebuy_racing_with_open")
		at := int64(-1)
		if h != nil && h.Opened != nil {
			if p := sim.FindPlayer(h.Opened, r.id); p != nil {
				at = p.Bankroll
			}
		}
		switch at {
		case r.before + r.chips:
			s.Label("racing_rebuy_landed_before_open")
		case r.before:
			// landed after the opened snapshot: an in-hand top-up
			l.topups[r.id] += r.chips
			s.Label("racing_rebuy_landed_after_open")
		case -1:
			// no hand opened: the chips must simply be there
			if p := sim.FindPlayer(s.Now(), r.id); p == nil || p.Bankroll != r.before+r.chips {
				c.Failf("C01.racing-rebuy-lost", "%s re-bought %d (had %d) while a hand was being opened; now: %s", r.id, r.chips, r.before, tableSummary(s.Now()))
			}
		default:
			c.Failf("C01.racing-rebuy-lost", "%s re-bought %d (had %d) while hand %d was opening; the opened snapshot shows %d", r.id, r.chips, r.before, len(s.Hands), at)
		}
	}
	o.BeforeHand = func(s *sim.Sim, n int) bool {
		if s.GateArmed == nil || !choose.Chance(c.Ch, "racer", 15) {
			return true
		}
		now := s.Now()
		ids := sim.AllPlayers(now)
		if len(ids) == 0 {
			return true
		}
		id := ids[c.Ch.Int("racer.who", 0, len(ids)-1)]
		p := sim.FindPlayer(now, id)
		r := &racer{id: id, chips: int64(1 + c.Ch.Int("racer.chips", 0, 500)), before: p.Bankroll, done: make(chan error, 1)}
		delay := time.Duration(c.Ch.Int("racer.delay", 0, 60)) * 5 * time.Microsecond
		rc = r
		api := s.API
		go func() {
			time.Sleep(delay)
			r.done <- api.PlayerReserve(pokertable.JoinPlayer{PlayerID: r.id, RedeemChips: r.chips, Seat: -1})
		}()
		return true
	}
	prevAfter := o.AfterHand
	o.AfterHand = func(s *sim.Sim, h *sim.Hand) {
		settleRacer(s, h) // no-op when the opened hook already did it
		prevAfter(s, h)
	}
	hooks := sim.Hooks{Opened: func(s *sim.Sim, h *sim.Hand) {
		// top-ups accepted before the hand opened are part of the bankroll at open
		l.topups = map[string]int64{}
		l.gone = map[string]bool{}
		settleRacer(s, h)
	}}
	s := RunHistory(c, o, hooks, func(s *sim.Sim, op *sim.OpRec) { l.onOp(s, op) })
	if l != nil {
		settleRacer(s, nil)
	}
	if l != nil && s.Stall == "" && !racerPending {
		l.checkSum("end of case", s.Now())
	}
	nontrivial := false
	for _, k := range []string{"sidepot", "splitpot", "bust", "rebuy_inhand", "addon_inhand", "leave_with_chips"} {
		if s.LabelSet[k] {
			nontrivial = true
		}
	}
	c.St.Case(s.Labels(), nontrivial, traceOf(s), sampleOf(s))
}

func TestC01(t *testing.T) {
	run.Property(t, "C01", "c01", c01Stats, run.Scale(20, 200), c01Body)
}
