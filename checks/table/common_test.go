package table

import (
	"fmt"
	"os"
	"sort"
	"strings"
	"testing"

	"github.com/weedbox/pokertable"

	"verif/harness/choose"
	"verif/harness/run"
	"verif/harness/sim"
)

func TestMain(m *testing.M) { run.Main(m) }

// HistOpts configures the shared table-history generator.
type HistOpts struct {
	Gen          sim.GenOpts
	MinHands     int
	MaxHands     int
	WithholdPct  int // chance that one settlement-finish signal is withheld (real 2 s)
	BetweenOps   int // max membership ops between hands
	BetweenPct   int // chance that any op happens between two hands
	Mem          sim.MemOpts
	InHandOps    int // percent chance per decision point of a membership/top-up op during the hand
	InHandMem    sim.MemOpts
	OnStall      func(s *sim.Sim, h *sim.Hand) // the driver gave up on a hand (legal action refused / no progress)
	ExpectStalls bool                          // stalls are part of the property (fault injection): do not give up on them
	NoRearm      bool                          // never re-arm the gate from outside (C08: "without any further external call")
	RearmOnLeave bool                          // re-arm the gate from outside when a gate participant left (otherwise wait for the 2 s timeout)
	Prepare      func(s *sim.Sim)              // after table creation, before the first hand
	BeforeHand   func(s *sim.Sim, n int) bool  // false = stop
	AfterHand    func(s *sim.Sim, h *sim.Hand)
	SettledPlan  func(s *sim.Sim, n int) // called before each hand to plan in-callback actions
}

// stalls counts driver stalls in this process; non-liveness checks give up
// (inconclusive) instead of burning the budget on a wedged engine.
var stalls int

// participants of the running hand must not leave (caller precondition, DESIGN 2.3)
func handParticipants(s *sim.Sim) map[string]bool {
	m := map[string]bool{}
	if s.Cur != nil {
		for _, id := range s.Cur.M {
			m[id] = true
		}
	}
	return m
}

// RunHistory creates a table from a drawn configuration and plays a drawn
// number of hands with drawn membership operations. It returns the sim (already
// finished) for final classification.
// facadeViaManager routes every table operation of the history driver through a
// Manager (C17's forwarding check re-uses the other properties' oracles).
var facadeViaManager bool

func RunHistory(c *run.Ctx, o HistOpts, hooks sim.Hooks, onOp func(s *sim.Sim, op *sim.OpRec)) *sim.Sim {
	cfg := sim.GenConfig(c.Ch, o.Gen)
	cfg.ViaManager = facadeViaManager
	return RunHistoryCfg(c, cfg, o, hooks, onOp)
}

func RunHistoryCfg(c *run.Ctx, cfg sim.Config, o HistOpts, hooks sim.Hooks, onOp func(s *sim.Sim, op *sim.OpRec)) *sim.Sim {
	userDecision := hooks.AtDecision
	hooks.AtDecision = func(s *sim.Sim, d *sim.Decision) {
		if o.InHandOps > 0 && choose.Chance(s.Ch, "inhand.op", o.InHandOps) {
			mo := o.InHandMem
			mo.NoLeave = handParticipants(s)
			if op := s.RandomMembershipOp(mo); op != nil {
				s.Label("inhand_" + op.Kind)
			}
		}
		if userDecision != nil {
			userDecision(s, d)
		}
	}
	s := sim.New(c.Ch, cfg, hooks)
	s.OnOp = onOp
	c.Defer(s.Finish)
	c.Ch.Note("config: %s", cfg.String())
	if s.CreateErr != nil {
		c.Failf(c.Prop+".valid-setup-refused", "creating the table / seating its players failed for a valid configuration %s: %v", cfg.String(), s.CreateErr)
	}
	if o.Prepare != nil {
		o.Prepare(s)
	}
	if len(sim.LivePlayers(s.Now())) < 2 {
		s.Label("not_startable")
		return s
	}
	if !s.StartFirst(nil) {
		c.Inconclusive("first hand could not be set up: %s", s.Stall)
	}
	nHands := o.MinHands
	if o.MaxHands > o.MinHands {
		nHands = c.Ch.Int("hist.hands", o.MinHands, o.MaxHands)
	}
	for n := 1; n <= nHands; n++ {
		if o.BeforeHand != nil && !o.BeforeHand(s, n) {
			break
		}
		if s.GateArmed == nil {
			break
		}
		if len(s.GateArmed.Participants) <= 1 && !o.NoRearm {
			// the engine ignores a gate with fewer than two participants (C08's business);
			// here the competition side re-arms it, as it does for the first hand
			if len(sim.LivePlayers(s.Now())) < 2 {
				s.Label("ended_too_few_live")
				break
			}
			if !s.SetupGate(nil) {
				c.Inconclusive("re-arm failed: %s", s.Stall)
			}
			s.Label("rearmed_single_participant")
		}
		if o.SettledPlan != nil {
			o.SettledPlan(s, n)
		}
		plan := s.PlanSignals(o.WithholdPct)
		// signals can only come from players who are at the table and seated-in
		now := s.Now()
		keep := plan.Order[:0]
		for _, id := range plan.Order {
			if p := sim.FindPlayer(now, id); p != nil && p.IsIn {
				keep = append(keep, id)
			} else {
				plan.Withheld = append(plan.Withheld, id)
			}
		}
		plan.Order = keep
		if len(plan.Withheld) > 0 {
			s.Label("signal_withheld")
		}
		h := s.PlayHand(plan)
		if s.Stall != "" && h.Outcome == "open-refused" {
			// the seat manager refused to rotate (recorded C04 finding, or a table that
			// really has fewer than two eligible players): the history ends here
			s.Label("ended_open_refused")
			c.Ch.Note("open refused: %s", s.Stall)
			if o.AfterHand != nil && h.SettledT != nil {
				o.AfterHand(s, h)
			}
			return s
		}
		if s.Stall != "" && o.OnStall != nil {
			o.OnStall(s, h)
		}
		if s.Stall != "" {
			stalls++
			s.Label("stalled")
			r := s.Stall
			if len(r) > 70 {
				r = r[:70]
			}
			s.Label("stall: " + r)
			c.Ch.Note("STALL: %s", s.Stall)
			if dir := os.Getenv("VERIF_STALL_DIR"); dir != "" {
				os.MkdirAll(dir, 0o755)
				c.Ch.Script(c.Prop, c.Check, "stall", s.Stall).Save(fmt.Sprintf("%s/stall-%s-%d.json", dir, c.Check, stalls))
			}
			if o.AfterHand != nil && h.SettledT != nil {
				o.AfterHand(s, h)
			}
			if stalls > 8 && !o.ExpectStalls {
				c.Inconclusive("engine stalled repeatedly, last: %s", s.Stall)
			}
			return s
		}
		if o.AfterHand != nil {
			o.AfterHand(s, h)
		}
		if h.Outcome != "gate" {
			s.Label("ended_" + h.Outcome)
			break
		}
		// between hands
		if n < nHands && o.BetweenOps > 0 && choose.Chance(c.Ch, "between.any", o.BetweenPct) {
			k := c.Ch.Int("between.n", 1, o.BetweenOps)
			for i := 0; i < k; i++ {
				if op := s.RandomMembershipOp(o.Mem); op != nil {
					s.Label("between_" + op.Kind)
				}
			}
			s.Drain()
			// the gate may now name players who are gone
			if s.GateArmed != nil {
				now := s.Now()
				missing := false
				for id := range s.GateArmed.Participants {
					if p := sim.FindPlayer(now, id); p == nil || !p.IsIn {
						missing = true
					}
				}
				live := sim.LivePlayers(now)
				if len(live) < 2 {
					s.Label("ended_too_few_live")
					break
				}
				if missing && o.RearmOnLeave {
					if !s.SetupGate(nil) {
						c.Inconclusive("re-arm failed: %s", s.Stall)
					}
					s.Label("rearmed")
				}
			}
		}
	}
	return s
}

// ---------------------------------------------------------------------------

func tableSummary(t *pokertable.Table) string {
	if t == nil {
		return "<nil>"
	}
	ps := []string{}
	for i, p := range t.State.PlayerStates {
		ps = append(ps, fmt.Sprintf("%d:%s@%d bank=%d in=%v part=%v pos=%v", i, p.PlayerID, p.Seat, p.Bankroll, p.IsIn, p.IsParticipated, p.Positions))
	}
	return fmt.Sprintf("status=%s count=%d D=%d SB=%d BB=%d gpi=%v seatmap=%v players=[%s]", t.State.Status, t.State.GameCount, t.State.CurrentDealerSeat, t.State.CurrentSBSeat, t.State.CurrentBBSeat, t.State.GamePlayerIndexes, t.State.SeatMap, strings.Join(ps, "; "))
}

func sortedKeys(m map[string]bool) []string {
	out := make([]string, 0, len(m))
	for k := range m {
		out = append(out, k)
	}
	sort.Strings(out)
	return out
}

func sumBankroll(t *pokertable.Table) int64 {
	var s int64
	for _, p := range t.State.PlayerStates {
		s += p.Bankroll
	}
	return s
}

func sampleOf(s *sim.Sim) func() interface{} {
	return func() interface{} {
		ops := s.Ch.Notes
		if len(ops) > 60 {
			ops = append(append([]string{}, ops[:40]...), fmt.Sprintf("... (%d more)", len(ops)-40))
		}
		return map[string]interface{}{"ops": ops, "labels": s.Labels()}
	}
}

func envInt(name string, def int) int {
	if v := os.Getenv(name); v != "" {
		var n int
		if _, err := fmt.Sscan(v, &n); err == nil {
			return n
		}
	}
	return def
}

// excluded reports whether the trigger of a known (unrepaired) finding must be
// left out of the main campaign (DESIGN 2.8); counted by the caller.
func excluded(sig string) bool {
	for _, k := range run.KnownFor(strings.SplitN(sig, ".", 2)[0]) {
		if k.Sig == sig {
			return true
		}
	}
	return false
}

// traceOf renders the abstract trace of a case: configuration class, the
// sequence of operation kinds, and per hand the participants, the action kinds
// and the outcome. Distinct traces = distinct cases for the evidence counters.
func traceOf(s *sim.Sim) string {
	var b strings.Builder
	fmt.Fprintf(&b, "N%d %s %s a%v d%v sb%v p%d|", s.Cfg.Seats, s.Cfg.Rule, s.Cfg.Mode, s.Cfg.Blind.Ante > 0, s.Cfg.Blind.Dealer > 0, s.Cfg.Blind.SB > 0, len(s.Cfg.Players))
	for _, h := range s.Hands {
		fmt.Fprintf(&b, "H%d:", len(h.M))
		for _, a := range h.Actions {
			if a.Kind == "ready" || a.Kind == "pay" {
				continue
			}
			b.WriteString(a.Kind[:2])
			if a.Err != nil {
				b.WriteString("!")
			}
		}
		b.WriteString(">" + h.Outcome + "|")
	}
	for _, l := range s.Labels() {
		b.WriteString(l + ",")
	}
	b.WriteString(strings.Join(s.Trace, ";"))
	return b.String()
}
