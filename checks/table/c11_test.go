package table

import (
	"fmt"
	"sort"
	"strings"
	"sync"
	"testing"
	"time"

	"github.com/weedbox/pokertable"

	"verif/harness/choose"
	"verif/harness/ev"
	"verif/harness/run"
	"verif/harness/sim"
)

var c11Stats = ev.New("C11", "c11")

// whoShouldBeAsked derives the asked set from the statement: readiness and ante
// from all dealt-in players, blinds only from blind positions whose blind is > 0.
func whoShouldBeAsked(d *sim.Decision) []string {
	out := []string{}
	gs := d.GS
	for _, p := range gs.Players {
		if p.Idx >= len(d.M) {
			continue
		}
		ask := false
		switch d.Kind {
		case "ready", "ante":
			ask = true
		case "blinds":
			for _, pos := range p.Positions {
				if (pos == "bb" && gs.Meta.Blind.BB > 0) || (pos == "sb" && gs.Meta.Blind.SB > 0) || (pos == "dealer" && gs.Meta.Blind.Dealer > 0) {
					ask = true
				}
			}
		}
		if ask {
			out = append(out, d.M[p.Idx])
		}
	}
	sort.Strings(out)
	return out
}

func c11Hooks(c *run.Ctx, nontrivial *bool, withholdPct int) sim.Hooks {
	var hooks sim.Hooks
	var callsAtRequest int
	hooks.AtDecision = func(s *sim.Sim, d *sim.Decision) {
		if d.Kind == "turn" {
			return
		}
		callsAtRequest = s.BE.NumCalls()
		want := whoShouldBeAsked(d)
		got := append([]string(nil), d.Asked...)
		sort.Strings(got)
		if strings.Join(want, ",") != strings.Join(got, ",") {
			c.Failf("C11.asked-set."+d.Kind, "%s request in hand %d (round %q): asked %v, the statement asks %v (blinds %+v, positions %v)", d.Kind, s.Cur.N, d.Round, got, want, d.GS.Meta.Blind, positionsOf(d))
		}
		// the hand's ready group waits for exactly those players
		if rg := pokertable.VerifGameReadyGroup(s.TE); rg != nil {
			ids := []string{}
			for gi := range rg.GetParticipantStates() {
				if int(gi) < len(d.M) {
					ids = append(ids, d.M[gi])
				} else {
					ids = append(ids, fmt.Sprintf("?%d", gi))
				}
			}
			sort.Strings(ids)
			if strings.Join(ids, ",") != strings.Join(want, ",") {
				c.Failf("C11.waits-for."+d.Kind, "%s request in hand %d: the hand waits for %v, the statement asks %v", d.Kind, s.Cur.N, ids, want)
			}
		}
		s.Label("request_" + d.Kind)
		if d.GS.Meta.Blind.Dealer > 0 && d.Kind == "blinds" {
			s.Label("dealer_blind")
		}
		if d.GS.Meta.Blind.SB == 0 && d.Kind == "blinds" {
			s.Label("no_sb")
		}
	}
	hooks.BeforeLast = func(s *sim.Sim, d *sim.Decision, last string) {
		if len(d.Asked) < 2 || !choose.Chance(c.Ch, "withhold", withholdPct) {
			return
		}
		// wait until the other responses have been processed by the hand's ready group
		rg := pokertable.VerifGameReadyGroup(s.TE)
		gi := -1
		for i, id := range d.M {
			if id == last {
				gi = i
			}
		}
		deadline := time.Now().Add(2 * time.Second)
		processed := false
		for time.Now().Before(deadline) {
			st := rg.GetParticipantStates()
			all := true
			for k, ready := range st {
				if int(k) != gi && !ready {
					all = false
				}
			}
			if all {
				processed = true
				break
			}
			time.Sleep(100 * time.Microsecond)
		}
		if !processed {
			return
		}
		// a premature advance would be on its way now; give it a moment to show
		time.Sleep(time.Duration(200+c.Ch.Int("withhold.us", 0, 800)) * time.Microsecond)
		s.Drain()
		for _, cl := range s.BE.CallsSince(callsAtRequest) {
			if cl.Kind == "ReadyForAll" || cl.Kind == "PayAnte" || cl.Kind == "PayBlinds" || cl.Kind == "Next" {
				c.Failf("C11.advanced-early."+d.Kind, "hand %d advanced (%s) at a %s request although %s had not responded", s.Cur.N, cl.Kind, d.Kind, last)
			}
		}
		if g := s.TE.GetGame(); g != nil {
			if ev := g.GetGameState().Status.CurrentEvent; ev != d.GS.Status.CurrentEvent {
				c.Failf("C11.advanced-early."+d.Kind, "hand %d moved from %s to %s although %s had not responded", s.Cur.N, d.GS.Status.CurrentEvent, ev, last)
			}
		}
		s.Label("withheld_" + d.Kind)
		*nontrivial = true
	}
	return hooks
}

func positionsOf(d *sim.Decision) string {
	parts := []string{}
	for _, p := range d.GS.Players {
		parts = append(parts, fmt.Sprintf("%d:%v", p.Idx, p.Positions))
	}
	return strings.Join(parts, " ")
}

func c11Body(c *run.Ctx) {
	nontrivial := false
	hooks := c11Hooks(c, &nontrivial, 30)
	o := HistOpts{
		Gen:          sim.GenOpts{ShortStacks: 35, SitOutPct: 10, AnteePct: 45, DealerBlindPct: 20, NoSBPct: 20, Rules: []int{3, 1}},
		MinHands:     1,
		MaxHands:     run.Scale(4, 8),
		BetweenOps:   1,
		BetweenPct:   25,
		Mem:          sim.MemOpts{NewPlayer: 3, Rebuy: 4, Leave: 1, KeepSitting: 10, MaxNewID: 12, TopupAnyone: true},
		RearmOnLeave: true,
	}
	o.OnStall = func(s *sim.Sim, h *sim.Hand) {
		if h.Opened != nil && h.SettledT == nil && h.Outcome != "open-refused" {
			// every response was given (or refused although the hand asked for it), every action
			// was legal: the hand must finish
			c.Failf("C11.hand-did-not-finish", "hand %d (%d participants) stopped advancing although everything asked was answered: %s", h.N, len(h.M), s.Stall)
		}
	}
	o.AfterHand = func(s *sim.Sim, h *sim.Hand) {
		if h.SettledT == nil {
			return
		}
		res := h.SettledT.State.GameState.Result
		if res == nil || len(res.Players) != len(h.M) {
			n := -1
			if res != nil {
				n = len(res.Players)
			}
			c.Failf("C11.result-entries", "hand %d settled with %d result entries for %d participants", h.N, n, len(h.M))
		}
		seen := map[int]bool{}
		for _, r := range res.Players {
			if seen[r.Idx] || r.Idx < 0 || r.Idx >= len(h.M) {
				c.Failf("C11.result-entries", "hand %d: result entries do not cover each participant once", h.N)
			}
			seen[r.Idx] = true
		}
		if len(h.Rounds) < 4 && h.Turns > 0 {
			// the hand ended before the river or rounds were skipped (all-in / fold-out)
			s.Label("round_skipped")
			nontrivial = true
		}
		s.Label(fmt.Sprintf("participants_%d", len(h.M)))
		if h.Decisions > 60*len(h.M)+40 {
			c.Failf("C11.too-many-steps", "hand %d needed %d decision points for %d participants", h.N, h.Decisions, len(h.M))
		}
	}
	s := RunHistory(c, o, hooks, nil)
	c.St.Case(s.Labels(), nontrivial, traceOf(s), sampleOf(s))
}

func TestC11(t *testing.T) {
	run.Property(t, "C11", "c11", c11Stats, run.Scale(20, 200), c11Body)
}

// ---------------------------------------------------------------------------
// timeout leg: one responder stays silent forever; the hand must move on by
// itself after the 17 s response timeout and not before. Tables run side by side
// so the real 17 s are paid once.

var c11tStats = ev.New("C11", "c11t")

type seededCh struct{ r *choose.SplitMix }

func (s seededCh) Int(label string, lo, hi int) int {
	if hi <= lo {
		return lo
	}
	return lo + s.r.Intn(hi-lo+1)
}

type c11tOutcome struct {
	sig, msg string
	kind     string
	elapsed  time.Duration
	rec      *choose.Recorder
	skipped  bool
}

func c11TimeoutTable(seed uint64) c11tOutcome {
	rec := choose.NewRecorder(seededCh{choose.NewSplitMix(seed)})
	out := c11tOutcome{rec: rec}
	cfg := sim.GenConfig(rec, sim.GenOpts{AnteePct: 50, DealerBlindPct: 15, MaxPlayers: 6, Rules: []int{4, 1}})
	target := rec.Int("target.request", 0, 3) // which group request of the hand is starved
	seen := 0
	var tCause time.Time
	var hooks sim.Hooks
	starved := false
	var tReq time.Time
	var s *sim.Sim
	hooks.AtDecision = func(sm *sim.Sim, d *sim.Decision) {
		if d.Kind == "turn" || starved {
			tCause = time.Now()
			return
		}
		if seen == target && len(d.Asked) >= 1 {
			starved = true
			out.kind = d.Kind
			tReq = d.Ev.At
			// answer for everybody but one, then wait for the hand to move on by itself
			silent := d.Asked[rec.Int("silent", 0, len(d.Asked)-1)]
			for _, id := range d.Asked {
				if id == silent {
					continue
				}
				kind, arg := "ready", int64(0)
				if d.Kind != "ready" {
					kind, arg = "pay", 1
				}
				sm.Do(id, kind, arg)
			}
			calls := sm.BE.NumCalls()
			ev := sm.WaitFor(17*time.Second+8*time.Second, func(e *sim.Event) bool {
				return e.Kind == "state" && e.Name == pokertable.TableStateEvent_GameUpdated && e.Table.State.GameState != nil && e.Table.State.GameState.Status.CurrentEvent != d.GS.Status.CurrentEvent
			})
			if ev == nil {
				// the hand may have moved to another request of the same kind (ReadyRequested -> ReadyRequested)
				if sm.BE.NumCalls() == calls {
					out.sig, out.msg = "C11.timeout-no-advance."+d.Kind, fmt.Sprintf("%s request with %s silent: no advance within 25 s", d.Kind, silent)
					sm.Stall = "timeout leg done"
					return
				}
			}
			var at time.Time
			for _, cl := range sm.BE.CallsSince(calls) {
				_ = cl
			}
			if ev != nil {
				at = ev.At
			} else {
				at = time.Now()
			}
			out.elapsed = at.Sub(tCause)
			if at.Sub(tCause) < 17*time.Second {
				out.sig, out.msg = "C11.timeout-early."+d.Kind, fmt.Sprintf("%s request with %s silent: the hand moved on %v after the request was caused (response timeout is 17 s)", d.Kind, silent, at.Sub(tCause))
			}
			if at.Sub(tReq) > 17*time.Second+6*time.Second {
				out.sig, out.msg = "C11.timeout-late."+d.Kind, fmt.Sprintf("%s request with %s silent: the hand moved on only %v after the request", d.Kind, silent, at.Sub(tReq))
			}
			sm.Stall = "timeout leg done"
			return
		}
		seen++
		tCause = time.Now()
	}
	s = sim.New(rec, cfg, hooks)
	defer s.Finish()
	if s.CreateErr != nil || len(sim.LivePlayers(s.Now())) < 2 {
		out.skipped = true
		return out
	}
	s.StepWait = 4 * time.Second
	if !s.StartFirst(nil) {
		out.skipped = true
		return out
	}
	tCause = time.Now()
	s.PlayHand(s.PlanSignals(0))
	if !starved {
		out.skipped = true
	}
	return out
}

func TestC11Timeout(t *testing.T) {
	defer c11tStats.Write()
	n := run.Scale(24, 256)
	seed := uint64(run.Seed())*9176 + uint64(run.Shard())*313
	outs := make([]c11tOutcome, n)
	var wg sync.WaitGroup
	for i := 0; i < n; i++ {
		wg.Add(1)
		go func(i int) {
			defer wg.Done()
			outs[i] = c11TimeoutTable(seed + uint64(i))
		}(i)
	}
	wg.Wait()
	for i, o := range outs {
		if o.skipped {
			c11tStats.Exclude("timeout_leg_not_reached", 1)
			continue
		}
		if o.sig != "" {
			c := &run.Ctx{Prop: "C11", Check: "c11t", TB: t, St: c11tStats, Ch: o.rec}
			func() {
				defer func() { recover() }()
				c.Failf(o.sig, "%s", o.msg)
			}()
			continue
		}
		c11tStats.Case([]string{"timeout_leg", "timeout_" + o.kind}, true, fmt.Sprintf("%d-%s", i, o.kind), func() interface{} {
			return map[string]interface{}{"request": o.kind, "advanced_after": o.elapsed.String()}
		})
	}
}
