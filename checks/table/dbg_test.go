package table

import (
	"encoding/json"
	"fmt"
	"os"
	"testing"

	"github.com/weedbox/pokertable"

	"verif/harness/choose"
	"verif/harness/sim"
)

type fixedCh struct{}

func (fixedCh) Int(l string, lo, hi int) int { return lo }

func TestDbgBlinds(t *testing.T) {
	if os.Getenv("DBG") == "" {
		t.Skip()
	}
	cfg := sim.Config{Seats: 4, Rule: "default", Mode: "ct", MinPlayers: 2, Blind: pokertable.TableBlindState{Level: 1, SB: 4, BB: 8},
		Players: []sim.PlayerSpec{{ID: "p00", Seat: 1, Chips: 16, Join: true}, {ID: "p01", Seat: 0, Chips: 1, Join: true}}}
	rec := choose.NewRecorder(fixedCh{})
	var hooks sim.Hooks
	hooks.Event = func(s *sim.Sim, e *sim.Event) {
		if e.Kind == "state" && e.Table != nil && e.Table.State.GameState != nil {
			gs := e.Table.State.GameState
			b, _ := json.Marshal(gs.Players)
			fmt.Fprintf(os.Stderr, "%s %s round=%s players=%s\n", e.Name, gs.Status.CurrentEvent, gs.Status.Round, b)
		}
	}
	s := sim.New(rec, cfg, hooks)
	defer s.Finish()
	s.StartFirst(nil)
	for i := 0; i < 3; i++ {
		h := s.PlayHand(s.PlanSignals(0))
		fmt.Fprintf(os.Stderr, "hand %d outcome %s stall %q\n", h.N, h.Outcome, s.Stall)
		if s.Stall != "" {
			break
		}
	}
	for _, l := range rec.Notes {
		fmt.Fprintln(os.Stderr, l)
	}
}
