package table

import (
	"encoding/json"
	"errors"
	"fmt"
	"sync"
	"testing"
	"time"

	"github.com/weedbox/pokerface"

	"verif/harness/backend"
	"verif/harness/choose"
	"verif/harness/ev"
	"verif/harness/run"
	"verif/harness/sim"
)

var c13Stats = ev.New("C13", "c13")

var playerKinds = map[string]bool{"Fold": true, "Check": true, "Call": true, "Allin": true, "Bet": true, "Raise": true, "Pass": true, "Pay": true}

// faultPlan is drawn on the test goroutine before a hand; the backend wrapper
// only looks things up (it runs on engine goroutines and must not draw).
type faultPlan struct {
	mu         sync.Mutex
	actionFail map[int]int // ordinal of the player-action call within the hand -> consecutive failures
	engineFail int         // ordinal of the engine-step call within the hand to fail (-1 = none)
	actionOrd  int
	engineOrd  int
	injected   map[string]int
	// lostReply: the failing call reaches the real backend and only its reply is lost
	// (per planned failure, drawn with the plan); lastLost is what decide() just chose
	lostAction map[int]bool
	lostEngine bool
	lastLost   bool
}

func (p *faultPlan) after(ord int, kind string) bool {
	p.mu.Lock()
	defer p.mu.Unlock()
	if p.lastLost {
		p.injected["lost-reply:"+kind]++
	}
	return p.lastLost
}

func (p *faultPlan) decide(ord int, kind string, gs *pokerface.GameState) bool {
	p.mu.Lock()
	defer p.mu.Unlock()
	if kind == "CreateGame" {
		fail := p.engineFail == 0
		p.actionOrd, p.engineOrd = 0, 1
		if fail {
			p.engineFail = -1
			p.injected[kind]++
			p.lastLost = false // a hand whose creation is lost half way cannot be judged
		}
		return fail
	}
	if playerKinds[kind] {
		if n := p.actionFail[p.actionOrd]; n > 0 {
			p.actionFail[p.actionOrd] = n - 1
			p.injected[kind]++
			p.lastLost = p.lostAction[p.actionOrd]
			return true
		}
		p.actionOrd++
		return false
	}
	fail := p.engineFail == p.engineOrd
	p.engineOrd++
	if fail {
		p.engineFail = -1
		p.injected[kind]++
		p.lastLost = p.lostEngine
	}
	return fail
}

func c13Body(c *run.Ctx) {
	plan := &faultPlan{actionFail: map[int]int{}, engineFail: -1, injected: map[string]int{}}
	nontrivial := false
	var preTable, preGame string
	actionEvents, preActionEvents := 0, 0
	capture := func(s *sim.Sim) {
		s.Drain()
		preTable = string(s.NowRaw())
		preGame = ""
		if g := s.TE.GetGame(); g != nil {
			b, _ := json.Marshal(g.GetGameState())
			preGame = string(b)
		}
		preActionEvents = actionEvents
	}
	var hooks sim.Hooks
	hooks.Event = func(s *sim.Sim, e *sim.Event) {
		if e.Kind == "action" && e.Action.Action != "pay" {
			// (antes / blinds received are announced late by the hand's completion goroutine)
			actionEvents++
		}
	}
	hooks.AtDecision = func(s *sim.Sim, d *sim.Decision) {
		if d.Kind == "turn" {
			capture(s)
		}
	}
	failedThisHand := 0
	hooks.AfterAct = func(s *sim.Sim, a *sim.ActionRec) {
		if a.Err == nil {
			return
		}
		if errors.Is(a.Err, sim.ErrHung) {
			c.Failf("C13.call-after-failure-never-returned", "after %d injected backend failure(s) in hand %d the engine no longer answers: %s", failedThisHand, s.Cur.N, s.Hung)
		}
		if !errors.Is(a.Err, backend.ErrInjected) {
			return // the driver reports an unexpected refusal as a stall; judged in AfterHand
		}
		failedThisHand++
		s.Label("fail_" + a.Kind)
		s.Drain()
		nowTable := string(s.NowRaw())
		nowGame := ""
		if g := s.TE.GetGame(); g != nil {
			b, _ := json.Marshal(g.GetGameState())
			nowGame = string(b)
		}
		if nowTable != preTable {
			c.Failf("C13.failure-changed-table", "backend failed while applying %s by %s; the table changed:\nbefore %s\nafter  %s", a.Kind, a.PID, trunc(preTable), trunc(nowTable))
		}
		if nowGame != preGame {
			c.Failf("C13.failure-changed-hand", "backend failed while applying %s by %s; the hand state changed", a.Kind, a.PID)
		}
		if actionEvents != preActionEvents {
			c.Failf("C13.failure-announced", "backend failed while applying %s by %s; an action event was emitted", a.Kind, a.PID)
		}
	}
	o := HistOpts{
		Gen:          sim.GenOpts{ShortStacks: 30, SitOutPct: 10, AnteePct: 40, DealerBlindPct: 10, MaxPlayers: 7},
		MinHands:     1,
		MaxHands:     run.Scale(4, 7),
		BetweenOps:   1,
		BetweenPct:   20,
		Mem:          sim.MemOpts{NewPlayer: 3, Rebuy: 4, Leave: 1, KeepSitting: 10, MaxNewID: 12, TopupAnyone: true},
		RearmOnLeave: true,
		ExpectStalls: true,
	}
	o.Prepare = func(s *sim.Sim) {
		s.BE.FaultFn = plan.decide
		s.BE.FaultAfter = plan.after
		s.CallGuard = 15 * time.Second // a failed call must not leave the engine unable to take the next one
	}
	engineFailPlanned := false
	o.BeforeHand = func(s *sim.Sim, n int) bool {
		plan.mu.Lock()
		plan.actionFail = map[int]int{}
		plan.lostAction = map[int]bool{}
		plan.lostEngine = false
		plan.engineFail = -1
		failedThisHand = 0
		k := c.Ch.Int("fault.actions", 0, 4)
		for i := 0; i < k; i++ {
			ord := c.Ch.Int("fault.ord", 0, 14)
			plan.actionFail[ord] = 1 + choose.Weighted(c.Ch, "fault.repeat", []int{5, 2, 1})
			if choose.Chance(c.Ch, "fault.lostreply", 50) {
				plan.lostAction[ord] = true
				s.Label("fault_lost_reply_planned")
			}
			if plan.actionFail[ord] > 1 {
				s.Label(fmt.Sprintf("repeat_fail_%d", plan.actionFail[ord]))
			}
		}
		engineFailPlanned = false
		if choose.Chance(c.Ch, "fault.engine", 12) {
			plan.engineFail = c.Ch.Int("fault.engine.ord", 0, 12)
			plan.lostEngine = choose.Chance(c.Ch, "fault.engine.lostreply", 50)
			engineFailPlanned = true
		}
		plan.mu.Unlock()
		return true
	}
	o.AfterHand = func(s *sim.Sim, h *sim.Hand) {
		if h.SettledT == nil {
			return
		}
		bh := h.BEHand
		if bh == nil {
			return
		}
		// chain integrity: each call received the state returned by the last successful one
		prev := bh.Create.OutNorm
		for _, cl := range bh.Calls {
			if cl.InNorm != prev {
				c.Failf("C13.chain-broken", "hand %d: backend call #%d %s received a state that is not the result of the last successful call", h.N, cl.Ord, cl.Kind)
			}
			if cl.Err == "" {
				prev = cl.OutNorm
			}
		}
		// the course and result are those of the successful steps alone
		ref, err := backend.Replay(bh)
		if err != nil {
			c.Failf("C13.replay-failed", "hand %d: replaying the successful calls on a pure backend failed: %v", h.N, err)
		}
		if a, b := backend.NormalizedJSON(ref), backend.NormalizedJSON(bh.Final); a != b {
			c.Failf("C13.differs-from-successful-steps", "hand %d: final hand state differs from the pure replay of its successful steps\nreplay %s\ntable  %s", h.N, trunc(a), trunc(b))
		}
		if a, b := backend.NormalizedJSON(ref), backend.NormalizedJSON(h.SettledT.State.GameState); a != b {
			c.Failf("C13.published-differs", "hand %d: the settled hand state published by the table differs from the replay of its successful steps", h.N)
		}
		if failedThisHand > 0 {
			s.Label("fail_then_settle")
			nontrivial = true
		}
	}
	s := RunHistory(c, o, hooks, nil)
	// an engine-step failure ends the hand: it must have been reported, not lost
	if s.Stall != "" && s.Cur != nil && s.Cur.SettledT == nil {
		plan.mu.Lock()
		engInjected := 0
		for k, v := range plan.injected {
			if !playerKinds[k] {
				engInjected += v
			}
		}
		plan.mu.Unlock()
		if engineFailPlanned && engInjected > 0 {
			// wait for the error callback (emitted on its own goroutine)
			reported := false
			for _, e := range s.Errors {
				if errors.Is(e, backend.ErrInjected) {
					reported = true
				}
			}
			if !reported {
				ev := s.WaitFor(3*time.Second, func(e *sim.Event) bool { return e.Kind == "error" && errors.Is(e.Err, backend.ErrInjected) })
				reported = ev != nil
			}
			if !reported {
				c.Failf("C13.engine-step-failure-lost", "a backend failure in a step the engine performs itself was not reported through the table error callback (%s)", s.Stall)
			}
			s.Label("engine_step_failure_reported")
			nontrivial = true
		} else if s.Cur.Opened != nil {
			c.Failf("C13.hand-stopped", "hand %d stopped although only player-action failures were injected and every action was resubmitted: %s", s.Cur.N, s.Stall)
		}
	}
	plan.mu.Lock()
	for k := range plan.injected {
		s.Label("injected_" + k)
	}
	plan.mu.Unlock()
	c.St.Case(s.Labels(), nontrivial, traceOf(s), sampleOf(s))
}

func TestC13(t *testing.T) {
	run.Property(t, "C13", "c13", c13Stats, run.Scale(20, 200), c13Body)
}
