package table

import (
	"fmt"
	"sort"
	"strings"
	"testing"
	"time"

	"github.com/weedbox/pokertable"

	"verif/harness/choose"
	"verif/harness/ev"
	"verif/harness/run"
	"verif/harness/sim"
)

var c08Stats = ev.New("C08", "c08")

func c08Body(c *run.Ctx) { c08BodyIv(c, 0) }

// c08BodyIv: interval > 0 gives the table a real continue delay of that many seconds;
// the statement's "pauses if and only if ..." is then judged on what is true when the
// interval elapses: a drawn operation (a busted player buys chips, a break starts or
// ends, somebody arrives) lands inside the delay, and the hand is judged only when that
// operation returned less than 0.9 s after the settlement was published, i.e. certainly
// before the 1 s continue step ran (otherwise the hand is counted as excluded).
func c08BodyIv(c *run.Ctx, interval int) {
	nontrivial := false
	skipJudge := false
	withheldBudget := 1 // real 2 s waits per case
	var hooks sim.Hooks
	breakPlanned, breakDone := false, false
	hooks.AtDecision = func(s *sim.Sim, d *sim.Decision) {
		// a break that starts while the hand runs (set at a decision point, i.e. unambiguously after the open)
		if breakPlanned && !breakDone {
			breakDone = true
			b := s.Cfg.Blind
			s.API.UpdateBlind(-1, b.Ante, b.Dealer, b.SB, b.BB)
			c.Ch.Note("  UpdateBlind(level -1) during the hand")
		}
		// arrivals while a hand runs
		if choose.Chance(c.Ch, "arrive.inhand", 4) {
			// ... including busted / sitting players who buy chips again (never the hand's participants)
			mo := sim.MemOpts{NewPlayer: 3, NewRandom: 1, JoinSitter: 2, Rebuy: 2, Addon: 4, KeepSitting: 30, MaxNewID: 14, NoLeave: map[string]bool{}}
			if s.Cur != nil {
				for _, id := range s.Cur.M {
					mo.NoLeave[id] = true
				}
			}
			if op := s.RandomMembershipOp(mo); op != nil {
				s.Label("arrival_during_hand")
				if op.Kind == "redeem" && op.Err == nil {
					s.Label("chips_bought_during_hand_by_non_participant")
				}
			}
		}
	}
	if interval > 0 {
		hooks.Settled = func(s *sim.Sim, h *sim.Hand) {
			skipJudge = false
			if !choose.Chance(c.Ch, "delay.any", 70) {
				return
			}
			time.Sleep(time.Duration(c.Ch.Int("delay.offset", 0, 6)) * 100 * time.Millisecond)
			now := s.Now()
			busted := []string{}
			for _, p := range now.State.PlayerStates {
				if p.Bankroll == 0 {
					busted = append(busted, p.PlayerID)
				}
			}
			kind := choose.Weighted(c.Ch, "delay.kind", []int{7, 2, 2, 2})
			what := ""
			switch {
			case kind == 0 && len(busted) > 0:
				id := busted[c.Ch.Int("delay.who", 0, len(busted)-1)]
				bb := s.Cfg.Blind.BB + s.Cfg.Blind.Dealer
				if choose.Chance(c.Ch, "delay.redeem", 50) {
					s.Redeem(id, 10*bb+1, "valid")
				} else {
					s.Reserve(id, -1, 10*bb+1, "valid")
				}
				what = "delay_busted_player_buys_chips"
			case kind == 1 && now.State.BlindState.Level != -1:
				b := s.Cfg.Blind
				s.API.UpdateBlind(-1, b.Ante, b.Dealer, b.SB, b.BB)
				what = "delay_break_starts"
			case kind == 2 && now.State.BlindState.Level == -1:
				b := s.Cfg.Blind
				s.API.UpdateBlind(b.Level+1, b.Ante, b.Dealer, b.SB, b.BB)
				what = "delay_break_ends"
			case kind == 3:
				mo := sim.MemOpts{NewPlayer: 3, NewRandom: 1, JoinSitter: 2, KeepSitting: 10, MaxNewID: 14}
				if op := s.RandomMembershipOp(mo); op != nil {
					what = "delay_arrival"
				}
			}
			if what == "" {
				return
			}
			c.Ch.Note("  %s inside the continue delay", what)
			if time.Since(h.SettledAt) < 900*time.Millisecond {
				s.Label(what)
				nontrivial = true
			} else {
				skipJudge = true
				c.St.Exclude("delay_op_not_certainly_before_the_continue_step", 1)
			}
		}
	}
	cfg := sim.GenConfig(c.Ch, sim.GenOpts{ShortStacks: 55, SitOutPct: 30, ViaCreatePct: 20, AnteePct: 20, Rules: []int{5, 1}, Modes: []int{3, 2, 1}})
	cfg.Interval = interval
	s := sim.New(c.Ch, cfg, hooks)
	c.Defer(s.Finish)
	c.Ch.Note("config: %s", cfg.String())
	if s.CreateErr != nil {
		c.Failf("harness.create", "table creation failed: %v", s.CreateErr)
	}
	if len(sim.LivePlayers(s.Now())) < 2 {
		c.St.Case([]string{"not_startable"}, false, "", nil)
		return
	}
	if !s.StartFirst(nil) {
		c.Inconclusive("first hand could not be set up: %s", s.Stall)
	}
	nHands := c.Ch.Int("hist.hands", 3, run.Scale(10, 20))
	if interval > 0 {
		nHands = c.Ch.Int("hist.hands.iv", 2, 5)
		s.Label("real_continue_delay")
	}
	for n := 1; n <= nHands; n++ {
		if s.GateArmed == nil {
			break
		}
		// arrivals / joins while the gate is armed (no departures: they would be external help or hindrance)
		if n > 1 && choose.Chance(c.Ch, "arrive.gate", 25) {
			mo := sim.MemOpts{NewPlayer: 3, NewRandom: 1, JoinSitter: 3, Rebuy: 3, Addon: 2, KeepSitting: 30, MaxNewID: 14, TopupAnyone: true}
			if op := s.RandomMembershipOp(mo); op != nil {
				s.Label("arrival_during_gate")
			}
			s.Drain()
		}
		now := s.Now()
		live := sim.LivePlayers(now)
		// signal plan: every subset and order of the expected players, sometimes extra signals
		plan := s.PlanSignals(0)
		expected := append([]string(nil), plan.Order...)
		kind := choose.Weighted(c.Ch, "sig.kind", []int{run.Scale(24, 7), 1, 1})
		if withheldBudget <= 0 {
			kind = 0
		}
		switch kind {
		case 1: // some signal
			if len(plan.Order) > 0 {
				k := c.Ch.Int("sig.keep", 0, len(plan.Order)-1)
				plan.Withheld = append(plan.Withheld, plan.Order[k:]...)
				plan.Order = plan.Order[:k]
				withheldBudget--
				s.Label("signals_some")
			}
		case 2: // nobody signals
			plan.Withheld = append(plan.Withheld, plan.Order...)
			plan.Order = nil
			withheldBudget--
			s.Label("signals_none")
		default:
			s.Label("signals_all")
		}
		// players who cannot signal (not at the table / not seated-in) count as silent
		keep := plan.Order[:0]
		for _, id := range plan.Order {
			if p := sim.FindPlayer(now, id); p != nil && p.IsIn {
				keep = append(keep, id)
			} else {
				plan.Withheld = append(plan.Withheld, id)
			}
		}
		plan.Order = keep
		if choose.Chance(c.Ch, "sig.extra", 20) {
			for _, id := range sim.AllPlayers(now) {
				if !inList(expected, id) {
					plan.Extra = append(plan.Extra, id)
				}
			}
			if len(plan.Extra) > 0 {
				s.Label("signals_extra")
			}
		}
		gateN := len(s.GateArmed.Participants)
		if len(live) < 2 {
			// outside the statement's proviso (nobody to deal to)
			s.Label("fewer_than_two_live")
			break
		}
		prevM := []string{}
		if s.Cur != nil {
			prevM = s.Cur.M
		}
		// a break planned for this hand: set while the hand runs
		breakPlanned = choose.Chance(c.Ch, "break", 4)
		breakDone = false
		h := s.PlayHand(plan)
		if h.Opened == nil {
			// the next hand did not open
			sig := "C08.no-open"
			ogm := pokertable.VerifOpenGameManager(s.TE).GetState()
			parts := []string{}
			for id, p := range ogm.Participants {
				parts = append(parts, fmt.Sprintf("%s:%v", id, p.IsReady))
			}
			sort.Strings(parts)
			evidence := fmt.Sprintf("gate participants [%s], status %s, engine lock free=%v, live players %v, last hand's players %v", strings.Join(parts, " "), s.TE.GetTable().State.Status, pokertable.VerifTryLock(s.TE), live, prevM)
			switch {
			case h.Outcome == "open-refused":
				sig = "C08.no-open.rotation-refused"
				// the recorded C04 finding: all but at most one of the live players carry the waiting flag
				notWaiting, smLive := 0, 0
				for _, sp := range s.SeatManager().Seats() {
					if sp != nil && sp.IsIn && sp.HasChips {
						smLive++
						if !sp.IsBetweenDealerBB {
							notWaiting++
						}
					}
				}
				if smLive >= 2 && notWaiting < 2 {
					sig = "C08.no-open.rotation-refused.waiting-flag"
				}
				evidence += " | seat manager: " + smDump(s.SeatManager())
			case gateN <= 1:
				sig = "C08.no-open.single-participant-gate"
			}
			c.Failf(sig, "hand %d did not open although %d seated-in players have chips (%s): %s", n, len(live), s.Stall, evidence)
		}
		if s.Stall != "" {
			c.Failf("C08.hand-stuck", "hand %d opened but was not played out: %s", n, s.Stall)
		}
		if len(plan.Withheld) > 0 {
			nontrivial = true
		}
		// classify the continuation
		if n > 1 {
			a, b := append([]string(nil), prevM...), append([]string(nil), h.M...)
			sort.Strings(a)
			sort.Strings(b)
			if strings.Join(a, ",") != strings.Join(b, ",") {
				nontrivial = true
				s.Label("participants_changed")
			}
			if len(prevM) == 2 && gateN <= 1 {
				s.Label("hu_bust_with_bystander")
			}
		}
		// pause iff break or fewer players with chips than the table minimum
		if h.SettledT == nil || h.After == nil {
			break
		}
		if skipJudge {
			if h.Outcome != "gate" {
				break
			}
			continue
		}
		alive := len(sim.AlivePlayers(h.After))
		shouldPause := h.After.State.BlindState.Level == -1 || alive < h.After.Meta.TableMinPlayerCount
		switch {
		case shouldPause && h.Outcome != "paused":
			c.Failf("C08.should-pause", "after hand %d: level %d, %d players with chips, minimum %d: the table should pause but did: %s", h.N, h.After.State.BlindState.Level, alive, h.After.Meta.TableMinPlayerCount, h.Outcome)
		case !shouldPause && h.Outcome == "paused":
			c.Failf("C08.should-not-pause", "after hand %d: level %d, %d players with chips, minimum %d: the table paused", h.N, h.After.State.BlindState.Level, alive, h.After.Meta.TableMinPlayerCount)
		case !shouldPause && h.Outcome != "gate":
			if len(sim.LivePlayers(h.After)) >= 2 {
				c.Failf("C08.no-setup", "after hand %d the table neither paused nor set up the next hand (%s) although %d seated-in players have chips", h.N, h.Outcome, len(sim.LivePlayers(h.After)))
			}
		}
		if h.Outcome == "paused" {
			if h.After.State.BlindState.Level == -1 {
				s.Label("pause_break")
			} else {
				s.Label("pause_min_players")
			}
			nontrivial = true
			break
		}
		busted := 0
		for _, id := range h.M {
			if p := sim.FindPlayer(h.After, id); p != nil && p.Bankroll == 0 {
				busted++
			}
		}
		if busted > 0 && busted == len(h.M)-1 {
			s.Label("all_but_one_bust")
		}
	}
	s.Label(fmt.Sprintf("hands_%d", len(s.Hands)))
	c.St.Case(s.Labels(), nontrivial, traceOf(s), sampleOf(s))
}

var c08iStats = ev.New("C08", "c08i")

func TestC08Interval(t *testing.T) {
	run.Property(t, "C08", "c08i", c08iStats, run.Scale(5, 20), func(c *run.Ctx) { c08BodyIv(c, 1) })
}

func TestC08(t *testing.T) {
	run.Property(t, "C08", "c08", c08Stats, run.Scale(20, 200), c08Body)
}

// scriptedShowdown builds the hooks of a directed first hand: the short stacks shove,
// `hero` calls and holds the aces; `arrive` is executed once at the first decision.
func scriptedShowdown(hero string, arrive func(s *sim.Sim)) sim.Hooks {
	var hooks sim.Hooks
	arrived := false
	hooks.Deck = func(s *sim.Sim, n int, short bool) []string {
		m := sim.GameIDs(s.TE.GetTable())
		if len(s.Hands) != 1 || len(m) != n {
			return nil
		}
		low := [][]string{{"S2", "H3"}, {"D4", "C6"}, {"H2", "S3"}, {"C5", "D6"}}
		deck := []string{}
		k := 0
		for _, id := range m {
			if id == hero {
				deck = append(deck, "SA", "HA")
			} else {
				deck = append(deck, low[k%len(low)]...)
				k++
			}
		}
		deck = append(deck, "C2", "DK", "CQ", "H9", "C3", "S8", "C4", "D7")
		used := map[string]bool{}
		for _, c := range deck {
			used[c] = true
		}
		for _, su := range []string{"S", "H", "D", "C"} {
			for _, pt := range []string{"2", "3", "4", "5", "6", "7", "8", "9", "T", "J", "Q", "K", "A"} {
				if !used[su+pt] {
					deck = append(deck, su+pt)
				}
			}
		}
		return deck
	}
	hooks.AtDecision = func(s *sim.Sim, d *sim.Decision) {
		if d.Kind == "turn" && len(s.Hands) == 1 {
			p := d.GS.GetPlayer(d.Cur)
			want := []string{"pass", "allin"}
			if d.Asked[0] == hero {
				want = []string{"pass", "call", "check", "allin"}
			}
			for _, k := range want {
				if inList(p.AllowedActions, k) {
					if err := s.Do(d.Asked[0], k, 0); err == nil {
						s.SkipAct = true
					}
					break
				}
			}
		}
		if !arrived && len(s.Hands) == 1 && arrive != nil {
			arrived = true
			arrive(s)
		}
	}
	return hooks
}

var c08pStats = ev.New("C08", "c08p")

// TestC08Pinned keeps the recorded wedge demonstrated: 6 seats, A@2 (deep), B@3 and
// C@1 (short); in a hand with D=2 SB=3 BB=1 two newcomers sit in at seats 4 and 5
// (between small and big blind: they wait), B and C shove and lose to A. Three
// seated-in players have chips, the gate fires, the rotation is refused.
func TestC08Pinned(t *testing.T) {
	defer c08pStats.Write()
	const sig = "C08.no-open.rotation-refused.waiting-flag"
	if run.IsKnown("C08", sig) == nil {
		return
	}
	for attempt := 0; attempt < 60; attempt++ {
		c := &run.Ctx{Prop: "C08", Check: "c08p", TB: t, St: c08pStats}
		c.Ch = choose.NewRecorder(choose.NewScriptChooser(nil))
		func() {
			defer func() {
				if r := recover(); r != nil && fmt.Sprint(r) != "{}" {
					panic(r)
				}
			}()
			cfg := sim.Config{Seats: 6, Rule: pokertable.CompetitionRule_Default, Mode: pokertable.CompetitionMode_CT, MinPlayers: 2,
				Blind:   pokertable.TableBlindState{Level: 1, SB: 2, BB: 4},
				Players: []sim.PlayerSpec{{ID: "A", Seat: 2, Chips: 1000, Join: true}, {ID: "B", Seat: 3, Chips: 30, Join: true}, {ID: "C", Seat: 1, Chips: 30, Join: true}}}
			hooks := scriptedShowdown("A", func(s *sim.Sim) {
				s.Reserve("N1", 4, 500, "valid")
				s.Join("N1", "valid")
				s.Reserve("N2", 5, 500, "valid")
				s.Join("N2", "valid")
			})
			hooks.Opened = func(s *sim.Sim, h *sim.Hand) {
				st := h.Opened.State
				if h.N == 1 && !(st.CurrentDealerSeat == 2 && st.CurrentSBSeat == 3 && st.CurrentBBSeat == 1) {
					s.Stall = "other initial button"
				}
			}
			s := sim.New(c.Ch, cfg, hooks)
			defer s.Finish()
			if s.CreateErr != nil || !s.StartFirst(nil) {
				return
			}
			h1 := s.PlayHand(s.PlanSignals(0))
			if s.Stall != "" || h1.Outcome != "gate" {
				return
			}
			live := sim.LivePlayers(s.Now())
			h2 := s.PlayHand(s.PlanSignals(0))
			if h2.Opened == nil && h2.Outcome == "open-refused" && len(live) >= 2 {
				notWaiting := 0
				for _, sp := range s.SeatManager().Seats() {
					if sp != nil && sp.IsIn && sp.HasChips && !sp.IsBetweenDealerBB {
						notWaiting++
					}
				}
				if notWaiting < 2 {
					c.Failf(sig, "pinned history: hand 2 did not open although %v are seated-in with chips: %s | seat manager: %s", live, s.Stall, smDump(s.SeatManager()))
				}
			}
		}()
		for _, k := range c08pStats.Known {
			if strings.HasSuffix(k, "["+sig+"]") {
				c08pStats.Add("pinned_attempts_until_demonstrated", int64(attempt+1))
				c08pStats.Case([]string{"pinned"}, true, "pinned-c08", func() interface{} {
					return "directed history: A@2 B@3 C@1, D=2 SB=3 BB=1, N1@4 N2@5 arrive and wait, B and C bust -> rotation refused with three live players"
				})
				return
			}
		}
	}
	c08pStats.Add("pinned_not_demonstrated", 1)
}
