package table

import (
	"testing"

	"verif/harness/choose"
	"verif/harness/ev"
	"verif/harness/run"
)

// FuzzC03 feeds coverage-guided byte strings through the decision stream of the
// membership state machine (choose.Bytes decodes them into the bounded draws the
// rapid check makes); the three-way consistency / all-or-nothing oracle of c03Body
// runs inside the target on a fresh engine per iteration. Thorough tier only.
var c03fStats = ev.New("C03", "c03fuzz")

func FuzzC03(f *testing.F) {
	f.Add([]byte{})
	f.Add([]byte{9, 0, 0, 3, 1, 2, 3, 4, 5, 6, 7, 8, 9, 10, 11, 12, 13, 14, 15, 16})
	f.Add([]byte{2, 1, 1, 2, 0, 0, 1, 1, 2, 2, 3, 3, 4, 4, 5, 5, 6, 6, 7, 7, 8, 8, 9, 9, 0, 1, 0, 1})
	f.Add([]byte{10, 2, 0, 10, 9, 8, 7, 6, 5, 4, 3, 2, 1, 0, 11, 12, 13, 200, 201, 202, 255, 254, 0, 0, 0, 17, 33, 65})
	f.Fuzz(func(t *testing.T, data []byte) {
		c := &run.Ctx{Prop: "C03", Check: "c03fuzz", TB: t, St: c03fStats}
		c.Ch = choose.NewRecorder(&choose.Bytes{B: data})
		c.RunBody(c03Body)
	})
}
