package table

import (
	"encoding/json"
	"fmt"
	"testing"
	"time"

	"github.com/weedbox/pokertable"

	"verif/harness/choose"
	"verif/harness/ev"
	"verif/harness/run"
	"verif/harness/sim"
)

var c10Stats = ev.New("C10", "c10")

var actionKinds = []string{"fold", "check", "call", "bet", "raise", "allin", "pass", "ready", "pay"}
var actorKinds = []string{"current", "participant", "inactive", "nonparticipant", "stranger"}

// fullState is everything a refused action must leave untouched.
type fullState struct {
	table   string
	game    string
	calls   int
	events  int
	actions int
}

var otherEventsPtr = new(int)

func captureState(s *sim.Sim, actionEvents int) fullState {
	// only successful backend calls count: the engine may legitimately ask the
	// backend and be refused by it (e.g. the current player calling when only check is allowed)
	ok := 0
	for _, cl := range s.BE.CallsSince(0) {
		if cl.Err == "" {
			ok++
		}
	}
	fs := fullState{table: string(s.NowRaw()), calls: ok, events: *otherEventsPtr, actions: actionEvents}
	if g := s.TE.GetGame(); g != nil {
		b, _ := json.Marshal(g.GetGameState())
		fs.game = string(b)
	}
	return fs
}

func c10Body(c *run.Ctx) {
	var payEvents []*pokertable.TablePlayerGameAction
	type paid struct {
		pid, round, event string
		seat, gc          int
	}
	var paidNow []paid
	actionEvents := 0
	var lastActionEv *pokertable.TablePlayerGameAction
	refusedOutOfTurn, refusedNonPart := 0, 0
	matrix := map[string]bool{}
	var hooks sim.Hooks
	otherEvents := 0
	hooks.Event = func(s *sim.Sim, ev *sim.Event) {
		if ev.Kind == "action" {
			if ev.Action.Action == "pay" {
				// antes / blinds received: announced by the hand's completion goroutine, which
				// may still be running when the next request has already been published; they
				// are matched against the accepted payments when the hand is over
				payEvents = append(payEvents, ev.Action)
				return
			}
			actionEvents++
			lastActionEv = ev.Action
			return
		}
		otherEvents++
		*otherEventsPtr = otherEvents
	}
	// allowedNow: does the statement allow this actor/action at this decision point?
	attempt := func(s *sim.Sim, d *sim.Decision, where string) {
		s.Drain()
		t := s.Now()
		// choose the actor
		ak := c.Ch.Int("intr.actor", 0, len(actorKinds)-1)
		var pid string
		var gi = -1
		M := []string{}
		if d != nil {
			M = d.M
		}
		switch actorKinds[ak] {
		case "current":
			if d == nil || d.Kind != "turn" {
				return
			}
			pid, gi = M[d.Cur], d.Cur
		case "participant":
			if d == nil || len(M) < 2 {
				return
			}
			k := c.Ch.Int("intr.who", 0, len(M)-1)
			if d.Kind == "turn" && k == d.Cur {
				k = (k + 1) % len(M)
			}
			pid, gi = M[k], k
		case "inactive":
			if d == nil {
				return
			}
			cands := []int{}
			for _, p := range d.GS.Players {
				if (p.Fold || p.StackSize == 0) && (d.Kind != "turn" || p.Idx != d.Cur) {
					cands = append(cands, p.Idx)
				}
			}
			if len(cands) == 0 {
				return
			}
			gi = cands[c.Ch.Int("intr.who", 0, len(cands)-1)]
			pid = M[gi]
		case "nonparticipant":
			cands := []string{}
			for _, p := range t.State.PlayerStates {
				if !inList(M, p.PlayerID) {
					cands = append(cands, p.PlayerID)
				}
			}
			if len(cands) == 0 {
				return
			}
			pid = cands[c.Ch.Int("intr.who", 0, len(cands)-1)]
		case "stranger":
			pid = "nobody"
		}
		kind := actionKinds[c.Ch.Int("intr.action", 0, len(actionKinds)-1)]
		var arg int64
		switch kind {
		case "bet", "raise", "pay":
			arg = int64(1 + c.Ch.Int("intr.amount", 0, 200))
			if d != nil && kind == "raise" {
				arg += d.GS.Status.CurrentWager
			}
		}
		// does the statement allow it?
		allowed := false
		if d != nil && gi >= 0 {
			if p := d.GS.GetPlayer(gi); p != nil {
				for _, a := range p.AllowedActions {
					if a == kind {
						allowed = true
					}
				}
			}
		}
		if allowed {
			// a legal action submitted as an "intruder" would advance the hand under the
			// driver's feet; the accepted side is checked on the driver's own actions
			return
		}
		before := captureState(s, actionEvents)
		err := s.Do(pid, kind, arg)
		s.Drain()
		after := captureState(s, actionEvents)
		cell := actorKinds[ak] + "/" + kind
		matrix[cell] = true
		s.Label("cell:" + cell)
		s.Label("attempt_" + where)
		c.Ch.Note("  intruder %s %s(%d) by %s at %s -> %v", actorKinds[ak], kind, arg, pid, where, err)
		detail := fmt.Sprintf("%s %s(%d) by %s (game index %d) at %s; allowed actions there: %v", actorKinds[ak], kind, arg, pid, gi, where, allowedOf(d, gi))
		if err == nil {
			sig := "C10.accepted." + kind
			if actorKinds[ak] == "current" {
				sig = "C10.accepted-not-allowed." + kind
			}
			c.Failf(sig, "action the hand does not allow was accepted: %s", detail)
		}
		if before.table != after.table {
			c.Failf("C10.refused-changed-table", "refused action changed the table: %s\nbefore %s\nafter  %s", detail, trunc(before.table), trunc(after.table))
		}
		if before.game != after.game {
			c.Failf("C10.refused-changed-hand", "refused action changed the hand state: %s", detail)
		}
		if before.calls != after.calls {
			c.Failf("C10.refused-backend-call", "refused action was applied by the game backend: %s", detail)
		}
		if before.actions != after.actions || before.events != after.events {
			c.Failf("C10.refused-emitted", "refused action emitted events: %s", detail)
		}
		if actorKinds[ak] == "participant" || actorKinds[ak] == "inactive" {
			refusedOutOfTurn++
		}
		if actorKinds[ak] == "nonparticipant" || actorKinds[ak] == "stranger" {
			refusedNonPart++
		}
	}
	hooks.AtDecision = func(s *sim.Sim, d *sim.Decision) {
		// the table is paused or closed from outside in the middle of a hand: from then on no
		// hand is being played; the action the hand was waiting for, and everything else, is
		// refused without a trace. The case ends there.
		if d.Kind == "turn" && choose.Chance(c.Ch, "midhand.stop", 3) {
			op := "PauseTable"
			var err error
			if choose.Chance(c.Ch, "midhand.close", 50) {
				op = "CloseTable"
				err = s.API.CloseTable()
			} else {
				err = s.API.PauseTable()
			}
			s.Drain()
			c.Ch.Note("  %s in the middle of hand %d -> %v (status %s)", op, s.Cur.N, err, s.Now().State.Status)
			if err == nil {
				pid := d.M[d.Cur]
				cur := d.GS.GetPlayer(d.Cur)
				for _, kind := range []string{"check", "call", "fold", "allin", "pass"} {
					if cur == nil || !inList(cur.AllowedActions, kind) {
						continue
					}
					before := captureState(s, actionEvents)
					aerr := s.Do(pid, kind, 0)
					s.Drain()
					after := captureState(s, actionEvents)
					detail := fmt.Sprintf("%s by %s, whose turn it was (allowed %v), after %s in the middle of the hand (status %s)", kind, pid, cur.AllowedActions, op, s.Now().State.Status)
					if aerr == nil {
						c.Failf("C10.accepted-while-no-hand-is-played."+kind, "accepted although the table is not playing: %s", detail)
					}
					if before.table != after.table || before.game != after.game || before.calls != after.calls || before.actions != after.actions || before.events != after.events {
						c.Failf("C10.refused-changed-table", "refused action left a trace: %s", detail)
					}
					break
				}
				for i := 0; i < 2; i++ {
					attempt(s, d, "table_stopped_mid_hand")
				}
				s.Label("table_stopped_mid_hand_" + op)
				c.St.Case(s.Labels(), true, traceOf(s), sampleOf(s))
				c.End()
			}
		}
		n := 0
		if choose.Chance(c.Ch, "intr.any", 55) {
			n = c.Ch.Int("intr.n", 1, 3)
		}
		for i := 0; i < n; i++ {
			where := "turn"
			if d.Kind != "turn" {
				where = "group_request"
			}
			attempt(s, d, where)
		}
	}
	// accepted side: every driver action
	hooks.AfterAct = func(s *sim.Sim, a *sim.ActionRec) {
		if a.Err != nil {
			return
		}
		if a.Kind == "pay" && s.Cur != nil && s.Cur.Opened != nil {
			seat := -1
			if p := sim.FindPlayer(s.Cur.Opened, a.PID); p != nil {
				seat = p.Seat
			}
			paidNow = append(paidNow, paid{a.PID, a.Round, a.Event, seat, s.Cur.GameCount})
			s.Label("paid_at_" + a.Event)
		}
		switch a.Kind {
		case "ready", "pay":
			return
		}
		// exactly one action event naming player, seat, action, round, hand
		s.Drain()
		if lastActionEv == nil {
			c.Failf("C10.accepted-no-event", "accepted %s by %s produced no action event", a.Kind, a.PID)
		}
		e := lastActionEv
		t := s.Cur.Opened
		seat := -1
		if p := sim.FindPlayer(t, a.PID); p != nil {
			seat = p.Seat
		}
		if e.PlayerID != a.PID || e.Action != a.Kind || e.Seat != seat || e.Round != a.Round || e.GameCount != s.Cur.GameCount || e.TableID != s.TableID {
			c.Failf("C10.event-content", "accepted %s by %s (seat %d, round %s, hand %d) announced as %+v", a.Kind, a.PID, seat, a.Round, s.Cur.GameCount, *e)
		}
		if s.Cur.First != nil && e.GameID != s.Cur.First.State.GameState.GameID {
			c.Failf("C10.event-gameid", "action event names game %s, hand is %s", e.GameID, s.Cur.First.State.GameState.GameID)
		}
	}
	o := HistOpts{
		Gen:        sim.GenOpts{ShortStacks: 30, SitOutPct: 25, AnteePct: 40, DealerBlindPct: 10, MaxPlayers: 7},
		MinHands:   1,
		MaxHands:   run.Scale(3, 6),
		BetweenOps: 2,
		BetweenPct: 40,
		Mem:        sim.MemOpts{NewPlayer: 3, JoinSitter: 1, Rebuy: 2, Leave: 1, KeepSitting: 40, MaxNewID: 12, TopupAnyone: true},
		// arrivals and departures of bystanders while the hand runs (participants stay): who is on
		// turn, and who may act, must not move with the player list
		InHandOps:    14,
		InHandMem:    sim.MemOpts{NewPlayer: 3, NewRandom: 1, JoinSitter: 1, Leave: 7, KeepSitting: 60, MaxNewID: 12},
		RearmOnLeave: true,
	}
	// per accepted action: exactly one backend call and one event (counted around the submit)
	var evBefore, callsBefore int
	userAt := hooks.AtDecision
	hooks.AtDecision = func(s *sim.Sim, d *sim.Decision) {
		userAt(s, d)
		s.Drain()
		evBefore, callsBefore = actionEvents, s.BE.NumCalls()
		lastActionEv = nil
	}
	userAfter := hooks.AfterAct
	hooks.AfterAct = func(s *sim.Sim, a *sim.ActionRec) {
		if a.Err == nil && a.Kind != "ready" && a.Kind != "pay" {
			// the Player* method announces synchronously, before it returns
			s.Drain()
			if actionEvents-evBefore < 1 {
				c.Failf("C10.accepted-no-event", "accepted %s by %s produced no action event", a.Kind, a.PID)
			}
			calls := s.BE.CallsSince(callsBefore)
			n := 0
			for _, cl := range calls {
				if cl.Err == "" && cl.Kind != "Next" && cl.Kind != "ReadyForAll" && cl.Kind != "PayAnte" && cl.Kind != "PayBlinds" {
					n++
				}
			}
			if n != 1 {
				c.Failf("C10.applied-not-once", "accepted %s by %s was applied %d times to the hand", a.Kind, a.PID, n)
			}
		}
		userAfter(s, a)
		evBefore, callsBefore = actionEvents, s.BE.NumCalls()
	}
	o.AfterHand = func(s *sim.Sim, h *sim.Hand) {
		// every accepted ante / blind payment of the hand has been announced by now (the hand is
		// settled, the announcements were queued many steps ago): one pay event naming the payer,
		// his seat and the hand
		wagers := 0
		for _, a := range h.Actions {
			if a.Err == nil && a.Kind != "ready" && a.Kind != "pay" {
				wagers++
			}
		}
		if h.SettledT != nil && wagers < 4 && len(paidNow) > 0 {
			// the announcing callback walks the hand's players on the completion goroutine; a hand
			// that is over after a fold or two can be reset underneath it, and it then announces
			// only the players it reached (seen in the thorough tier: heads-up, fold at once, the
			// small blind announced, the big blind not). Only hands with at least four accepted
			// wager actions - several engine round trips after the payments - are judged.
			s.Label("pay_announcements_not_judged_short_hand")
			c.St.Exclude("pay_announcements_short_hand", 1)
		}
		if h.SettledT != nil && wagers >= 4 {
			s.Drain()
			for _, phase := range []string{"AnteRequested", "BlindsRequested"} {
				inPhase := func(e *pokertable.TablePlayerGameAction) bool {
					return (e.Round == "ante") == (phase == "AnteRequested") && e.GameCount == h.GameCount && e.TableID == s.TableID
				}
				announced := func() map[string]int {
					m := map[string]int{}
					for _, e := range payEvents {
						if inPhase(e) {
							m[e.PlayerID]++
						}
					}
					return m
				}
				payers := []paid{}
				for _, pd := range paidNow {
					if pd.event == phase && pd.gc == h.GameCount {
						payers = append(payers, pd)
					}
				}
				if len(payers) == 0 {
					continue
				}
				complete := func() bool {
					m := announced()
					for _, pd := range payers {
						if m[pd.pid] < 1 {
							return false
						}
					}
					return true
				}
				if !complete() {
					// well below the gate's 2 s timeout: the table must still be between hands when
					// the refused attempts below are made
					s.WaitFor(300*time.Millisecond, func(e *sim.Event) bool { return complete() })
				}
				m := announced()
				if len(m) == 0 {
					// the announcements of a phase are made by one callback on the hand's completion
					// goroutine; when that goroutine gets its turn only after the hand is over it
					// finds no hand and announces nobody (seen with every check running at once).
					// A phase of which nothing was announced is not judged; one of which somebody
					// was announced must name every payer. Payers are matched by id only: the same
					// callback reads the player list twice without the engine lock, and a bystander
					// leaving in between makes it name the payer with a neighbour's seat (seen once
					// in 51 000 cases of the thorough tier).
					s.Label("pay_announcement_of_a_phase_never_made")
					c.St.Exclude("pay_phase_not_announced_at_all", 1)
					continue
				}
				for _, pd := range payers {
					if m[pd.pid] < 1 {
						c.Failf("C10.accepted-pay-not-announced", "hand %d: the payment of %s (seat %d) at %s was accepted, but the pay events of that phase name only %v", pd.gc, pd.pid, pd.seat, phase, m)
					}
					s.Label("accepted_pay_announced")
				}
				if phase == "BlindsRequested" {
					for _, pd := range payers {
						for _, pa := range paidNow {
							if pa.pid == pd.pid && pa.event == "AnteRequested" {
								s.Label("ante_and_blind_paid_by_one_player")
							}
						}
					}
				}
			}
		}
		paidNow, payEvents = nil, nil
		// after settlement / between hands / paused: nothing is accepted
		if h.After != nil {
			n := c.Ch.Int("intr.after", 0, 2)
			for i := 0; i < n; i++ {
				where := "after_settle"
				if h.Outcome == "paused" {
					where = "when_paused"
				}
				attempt(s, nil, where)
			}
		}
	}
	s := RunHistory(c, o, hooks, nil)
	c.St.Case(s.Labels(), refusedOutOfTurn > 0 && refusedNonPart > 0, traceOf(s), sampleOf(s))
}

func allowedOf(d *sim.Decision, gi int) []string {
	if d == nil || gi < 0 {
		return nil
	}
	if p := d.GS.GetPlayer(gi); p != nil {
		return p.AllowedActions
	}
	return nil
}

func trunc(s string) string {
	if len(s) > 1200 {
		return s[:1200] + "..."
	}
	return s
}

func TestC10(t *testing.T) {
	run.Property(t, "C10", "c10", c10Stats, run.Scale(20, 200), c10Body)
}
