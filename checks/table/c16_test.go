package table

import (
	"fmt"
	"runtime"
	"sort"
	"strings"
	"sync"
	"testing"
	"time"

	"github.com/anishathalye/porcupine"
	"github.com/weedbox/pokertable"

	"verif/harness/choose"
	"verif/harness/ev"
	"verif/harness/linmodel"
	"verif/harness/run"
	"verif/harness/sim"
)

// ---------------------------------------------------------------------------
// (b) concurrent table membership

var c16bStats = ev.New("C16", "c16b")

func c16bBody(c *run.Ctx) {
	n := c.Ch.Int("seats", 2, 10)
	cfg := sim.Config{Seats: n, Rule: pokertable.CompetitionRule_Default, Mode: pokertable.CompetitionMode_CT, MinPlayers: 2, Blind: pokertable.TableBlindState{Level: 1, SB: 5, BB: 10}}
	pre := c.Ch.Int("pre", 0, n)
	perm := choose.Perm(c.Ch, "preperm", n)
	for i := 0; i < pre; i++ {
		cfg.Players = append(cfg.Players, sim.PlayerSpec{ID: sim.PlayerID(i), Seat: perm[i], Chips: 100})
	}
	s := sim.New(c.Ch, cfg, sim.Hooks{})
	c.Defer(s.Finish)
	if s.CreateErr != nil {
		c.Failf("harness.create", "%v", s.CreateErr)
	}
	te := s.TE
	initial := map[string]int{}
	for _, p := range s.Now().State.PlayerStates {
		initial[p.PlayerID] = p.Seat
	}
	// draw the burst
	g := c.Ch.Int("goroutines", 2, run.Scale(16, 48))
	type job struct {
		in        linmodel.Op
		chips     int64
		spin      int
		viaUpdate bool // a departure issued as the leave half of UpdateTablePlayers
	}
	jobs := make([]job, g)
	labels := map[string]bool{fmt.Sprintf("N%d", n): true}
	nextID := pre
	seatHits := map[int]int{}
	for i := range jobs {
		j := &jobs[i]
		j.spin = c.Ch.Int("spin", 0, 3)
		j.chips = int64(10 + c.Ch.Int("chips", 0, 90))
		switch choose.Weighted(c.Ch, "kind", []int{5, 3, 3, 2, 2, 1}) {
		case 0: // reserve fixed seat (colliding on purpose)
			seat := c.Ch.Int("seat", 0, n-1)
			seatHits[seat]++
			j.in = linmodel.Op{Kind: "reserve", ID: sim.PlayerID(nextID), Seat: seat, N: n}
			nextID++
		case 1: // reserve random seat
			j.in = linmodel.Op{Kind: "reserve", ID: sim.PlayerID(nextID), Seat: -1, N: n}
			nextID++
		case 2: // leave of an initially seated player (several goroutines may name the same one)
			if pre == 0 {
				j.in = linmodel.Op{Kind: "leave", IDs: []string{"ghost"}, N: n}
			} else {
				j.in = linmodel.Op{Kind: "leave", IDs: []string{sim.PlayerID(c.Ch.Int("who", 0, pre-1))}, N: n}
			}
		case 3: // re-buy of an initially seated player
			if pre == 0 {
				j.in = linmodel.Op{Kind: "reserve", ID: sim.PlayerID(nextID), Seat: -1, N: n}
				nextID++
			} else {
				j.in = linmodel.Op{Kind: "reserve", ID: sim.PlayerID(c.Ch.Int("who", 0, pre-1)), Seat: -1, N: n}
			}
		case 4: // batch update: joins only
			k := c.Ch.Int("batch", 1, 3)
			for x := 0; x < k; x++ {
				seat := -1
				if choose.Chance(c.Ch, "bfixed", 50) {
					seat = c.Ch.Int("seat", 0, n-1)
					seatHits[seat]++
				}
				j.in.Joins = append(j.in.Joins, pokertable.JoinPlayer{PlayerID: sim.PlayerID(nextID), RedeemChips: j.chips, Seat: seat})
				nextID++
			}
			j.in.Kind, j.in.N = "update-join", n
		case 5: // batch update: leaves only
			if pre < 2 {
				j.in = linmodel.Op{Kind: "leave", IDs: []string{"ghost"}, N: n}
			} else {
				j.in = linmodel.Op{Kind: "leave", IDs: []string{sim.PlayerID(c.Ch.Int("who", 0, pre-1)), sim.PlayerID(c.Ch.Int("who2", 0, pre-1))}, N: n}
				if j.in.IDs[0] == j.in.IDs[1] {
					j.in.IDs = j.in.IDs[:1]
				}
			}
		}
	}
	for i := range jobs {
		if jobs[i].in.Kind == "leave" && choose.Chance(c.Ch, "viaupdate", 50) {
			jobs[i].viaUpdate = true
			labels["leave_via_batch_update"] = true
		}
	}
	for _, h := range seatHits {
		if h >= 2 {
			labels["conflict_same_seat"] = true
		}
	}
	if pre+g >= n {
		labels["capacity_edge"] = true
	}
	// run the burst
	ops := make([]porcupine.Operation, g)
	var wg, ready sync.WaitGroup
	start := make(chan struct{})
	for i := range jobs {
		wg.Add(1)
		ready.Add(1)
		go func(i int) {
			defer wg.Done()
			j := jobs[i]
			ready.Done()
			<-start
			for k := 0; k < j.spin; k++ {
				runtime.Gosched()
			}
			var err error
			ret := ""
			t0 := time.Now().UnixNano()
			func() {
				defer func() {
					if r := recover(); r != nil {
						err = fmt.Errorf("panic: %v", r)
					}
				}()
				switch j.in.Kind {
				case "reserve":
					err = te.PlayerReserve(pokertable.JoinPlayer{PlayerID: j.in.ID, RedeemChips: j.chips, Seat: j.in.Seat})
				case "leave":
					if j.viaUpdate {
						_, err = te.UpdateTablePlayers(nil, j.in.IDs)
					} else {
						err = te.PlayersLeave(j.in.IDs)
					}
				case "update-join":
					var m map[string]int
					m, err = te.UpdateTablePlayers(j.in.Joins, nil)
					if err == nil {
						ret = linmodel.Enc(m)
					}
				}
			}()
			t1 := time.Now().UnixNano()
			ops[i] = porcupine.Operation{ClientId: i, Input: j.in, Call: t0, Output: linmodel.Out{OK: err == nil, Ret: ret}, Return: t1}
			if err != nil && strings.HasPrefix(err.Error(), "panic:") {
				ops[i].Metadata = err.Error()
			}
		}(i)
	}
	ready.Wait()
	close(start)
	wg.Wait()
	s.Drain()
	for _, o := range ops {
		if o.Metadata != nil {
			c.Failf("C16.panic", "a concurrent membership operation panicked: %v (%+v)", o.Metadata, o.Input)
		}
	}
	// afterwards: C03 bookkeeping, nobody lost or duplicated, chips
	final := s.Now()
	if sig, msg := seatConsistency(final, pokertable.VerifSeatManager(te)); sig != "" {
		c.Failf("C16."+strings.TrimPrefix(sig, "C03."), "after a burst of %d concurrent membership operations: %s; %s | sm: %s", g, msg, tableSummary(final), smDump(pokertable.VerifSeatManager(te)))
	}
	finalMap := map[string]int{}
	for _, p := range final.State.PlayerStates {
		finalMap[p.PlayerID] = p.Seat
	}
	if len(finalMap) > n {
		c.Failf("C16.capacity", "%d players on %d seats after the burst", len(finalMap), n)
	}
	// linearizability against the sequential seat model (initial state as a first operation)
	hist := []porcupine.Operation{}
	t := int64(0)
	ids := []string{}
	for id := range initial {
		ids = append(ids, id)
	}
	sort.Strings(ids)
	for _, id := range ids {
		hist = append(hist, porcupine.Operation{ClientId: 1000, Input: linmodel.Op{Kind: "reserve", ID: id, Seat: initial[id], N: n}, Call: t, Output: linmodel.Out{OK: true}, Return: t + 1})
		t += 2
	}
	base := int64(1 << 62)
	for _, o := range ops {
		if o.Call < base {
			base = o.Call
		}
	}
	var maxRet int64
	overlap := 0
	for i, o := range ops {
		o.Call = o.Call - base + t
		o.Return = o.Return - base + t
		if o.Return > maxRet {
			maxRet = o.Return
		}
		hist = append(hist, o)
		for k := 0; k < i; k++ {
			if ops[k].Call < ops[i].Return && ops[i].Call < ops[k].Return {
				overlap++
			}
		}
	}
	hist = append(hist, porcupine.Operation{ClientId: 1001, Input: linmodel.Op{Kind: "final", N: n}, Call: maxRet + 1, Output: linmodel.Out{Final: linmodel.Enc(finalMap)}, Return: maxRet + 2})
	res := porcupine.CheckOperationsTimeout(linmodel.SeatModel, hist, 10*time.Second)
	switch res {
	case porcupine.Illegal:
		lines := []string{}
		for _, o := range ops {
			lines = append(lines, fmt.Sprintf("[%d,%d] %+v -> %+v", o.Call-base, o.Return-base, o.Input, o.Output))
		}
		c.Failf("C16.not-linearizable", "no one-at-a-time order explains this burst on %d seats (initial %s, final %s):\n%s", n, linmodel.Enc(initial), linmodel.Enc(finalMap), strings.Join(lines, "\n"))
	case porcupine.Unknown:
		c.St.Exclude("linearizability check timed out", 1)
	}
	if overlap > 0 {
		labels["overlapping"] = true
	}
	c.St.Add("overlapping_pairs", int64(overlap))
	c.St.Add("operations", int64(g))
	labels[fmt.Sprintf("G%d", (g+7)/8*8)] = true
	labels[fmt.Sprintf("GOMAXPROCS%d", runtime.GOMAXPROCS(0))] = true
	tr := []string{}
	for _, j := range jobs {
		tr = append(tr, fmt.Sprintf("%s%d", j.in.Kind[:2], j.in.Seat))
	}
	c.St.Case(keys(labels), labels["conflict_same_seat"] || labels["capacity_edge"], fmt.Sprintf("%d|%d|%s", n, pre, strings.Join(tr, "")), func() interface{} {
		lines := []string{}
		for _, o := range ops {
			lines = append(lines, fmt.Sprintf("%+v -> %+v", o.Input, o.Output))
		}
		return map[string]interface{}{"seats": n, "initial": linmodel.Enc(initial), "final": linmodel.Enc(finalMap), "ops": lines}
	})
}

func TestC16Membership(t *testing.T) {
	run.Property(t, "C16", "c16b", c16bStats, run.Scale(10, 100), c16bBody)
}

// ---------------------------------------------------------------------------
// (c) simultaneous game actions

var c16cStats = ev.New("C16", "c16c")

func c16cBody(c *run.Ctx) {
	nontrivial := false
	var l *ledger
	burstsLeft := c.Ch.Int("bursts", 1, 3)
	handEndedInBurst := false
	actionEvents := []pokertable.TablePlayerGameAction{}
	var evMu sync.Mutex
	var hooks sim.Hooks
	hooks.Event = func(s *sim.Sim, e *sim.Event) {
		if e.Kind == "action" {
			evMu.Lock()
			actionEvents = append(actionEvents, *e.Action)
			evMu.Unlock()
		}
	}
	hooks.Opened = func(s *sim.Sim, h *sim.Hand) {
		if l != nil {
			l.topups = map[string]int64{}
			l.gone = map[string]bool{}
		}
	}
	hooks.AtDecision = func(s *sim.Sim, d *sim.Decision) {
		if d.Kind != "turn" || burstsLeft <= 0 || !choose.Chance(c.Ch, "burst", 40) {
			return
		}
		burstsLeft--
		s.Drain()
		evMu.Lock()
		ev0 := len(actionEvents)
		evMu.Unlock()
		calls0 := s.BE.NumCalls()
		// everybody at the table, and strangers, submit at the same instant the action that
		// would be plausible were it their turn
		type sub struct {
			pid, kind string
			err       error
		}
		subs := []*sub{}
		kinds := []string{"fold", "check", "call", "allin", "pass"}
		for _, id := range sim.AllPlayers(d.Table) {
			reps := 1 + c.Ch.Int("dup", 0, 1)
			for r := 0; r < reps; r++ {
				subs = append(subs, &sub{pid: id, kind: kinds[c.Ch.Int("bkind", 0, len(kinds)-1)]})
			}
		}
		for i := 0; i < c.Ch.Int("strangers", 0, 3); i++ {
			subs = append(subs, &sub{pid: fmt.Sprintf("stranger%d", i), kind: "fold"})
		}
		spins := make([]int, len(subs))
		for i := range spins {
			spins[i] = c.Ch.Int("spin", 0, 3)
		}
		var wg, ready sync.WaitGroup
		start := make(chan struct{})
		for i, sb := range subs {
			wg.Add(1)
			ready.Add(1)
			go func(i int, sb *sub) {
				defer wg.Done()
				ready.Done()
				<-start
				for k := 0; k < spins[i]; k++ {
					runtime.Gosched()
				}
				sb.err = s.Do(sb.pid, sb.kind, 0)
			}(i, sb)
		}
		ready.Wait()
		close(start)
		wg.Wait()
		// quiescence: nothing more is published once the accepted moves have been processed
		s.Quiesce(5 * time.Second)
		s.Drain()
		// oracle
		okSubs := map[string]int{}
		nOK := 0
		for _, sb := range subs {
			if sb.err == nil {
				okSubs[sb.pid+"/"+sb.kind]++
				nOK++
			}
		}
		evMu.Lock()
		evs := append([]pokertable.TablePlayerGameAction(nil), actionEvents[ev0:]...)
		evMu.Unlock()
		evSet := map[string]int{}
		for _, e := range evs {
			if e.Action == "pay" {
				continue
			}
			evSet[e.PlayerID+"/"+e.Action]++
		}
		if fmt.Sprint(okSubs) != fmt.Sprint(evSet) {
			c.Failf("C16.accepted-vs-announced", "burst at a %s turn: accepted submissions %v, announced actions %v", d.Round, okSubs, evSet)
		}
		// each successful backend player call was made on a state whose turn belonged to the announced player
		k := 0
		for _, cl := range s.BE.CallsSince(calls0) {
			if cl.Err != "" {
				continue
			}
			switch cl.Kind {
			case "Fold", "Check", "Call", "Allin", "Pass", "Bet", "Raise":
			default:
				continue
			}
			var announced *pokertable.TablePlayerGameAction
			for k < len(evs) {
				if evs[k].Action != "pay" {
					announced = &evs[k]
					k++
					break
				}
				k++
			}
			if announced == nil {
				c.Failf("C16.applied-without-announcement", "burst: backend applied %s for entry %d without a matching announcement", cl.Kind, cl.CurPlayer)
			}
			if cl.CurPlayer < 0 || cl.CurPlayer >= len(d.M) || d.M[cl.CurPlayer] != announced.PlayerID || strings.ToLower(cl.Kind) != announced.Action {
				c.Failf("C16.accepted-out-of-turn", "burst: the backend applied %s to entry %d (%s) but the table announced %s by %s", cl.Kind, cl.CurPlayer, nameAt(d.M, cl.CurPlayer), announced.Action, announced.PlayerID)
			}
		}
		s.Label(fmt.Sprintf("accepted_per_burst_%d", nOK))
		s.Label("burst")
		if len(subs) >= 2 {
			nontrivial = true
		}
		c.Ch.Note("  burst of %d submissions: %d accepted", len(subs), nOK)
		if nOK > 0 {
			// the hand moved on under the driver's feet and its snapshots were consumed above:
			// hand the driver the state the engine is waiting at now
			s.SkipAct = true
			if st := s.TE.GetTable().State; st.GameState != nil && st.Status == pokertable.TableStateStatus_TableGamePlaying {
				s.Quiesce(5 * time.Second)
				s.Drain()
				s.DropBacklog()
				s.PushSnapshot()
			} else {
				// the burst ended the hand (e.g. the decisive fold was among the submissions): its
				// settlement was consumed above; chips are still checked on the table as it is now
				s.Label("hand_ended_in_burst")
				handEndedInBurst = true
				s.Stall = "hand over after burst (end of case)"
			}
		}
	}
	o := HistOpts{
		Gen:          sim.GenOpts{ShortStacks: 30, SitOutPct: 15, AnteePct: 30, MaxPlayers: 8},
		MinHands:     1,
		MaxHands:     run.Scale(3, 5),
		RearmOnLeave: true,
		ExpectStalls: true,
	}
	o.Prepare = func(s *sim.Sim) {
		l = newLedger(c, s)
		for _, p := range s.Now().State.PlayerStates {
			l.in += p.Bankroll
		}
	}
	// reservations of newcomers issued from another goroutine while the hand is being opened
	// (the gate fires on a goroutine of its own): every accepted one must be at the table
	// afterwards, on a seat of its own, with the bookkeeping of C03 intact
	type racing struct {
		ids  []string
		errs []error
		done chan struct{}
	}
	var rc *racing
	settleRacing := func(s *sim.Sim) {
		if rc == nil {
			return
		}
		r := rc
		rc = nil
		select {
		case <-r.done:
		case <-time.After(s.StepWait):
			if !pokertable.VerifTryLock(s.TE) {
				s.Label("racing_reservations_blocked_behind_open_retry")
				return
			}
			c.Failf("C16.racing-reservation-stuck", "reservations issued while hand %d was opening did not return although the engine lock is free", len(s.Hands))
		}
		s.Quiesce(200 * time.Millisecond)
		now := s.Now()
		for i, id := range r.ids {
			if r.errs[i] != nil {
				continue
			}
			l.in += 100
			n := 0
			for _, p := range now.State.PlayerStates {
				if p.PlayerID == id {
					n++
				}
			}
			if n != 1 {
				c.Failf("C16.reservation-lost-while-hand-opened", "PlayerReserve(%s) was accepted while hand %d was opening, but the player list names him %d times: %s", id, len(s.Hands), n, tableSummary(now))
			}
		}
		if sig, msg := seatConsistency(now, pokertable.VerifSeatManager(s.TE)); sig != "" && sig != "C03.sm-isin" {
			c.Failf("C16."+strings.TrimPrefix(sig, "C03."), "after reservations racing with the opening of hand %d: %s; %s | sm: %s", len(s.Hands), msg, tableSummary(now), smDump(pokertable.VerifSeatManager(s.TE)))
		}
		s.Label("reservations_racing_with_open")
		nontrivial = true
	}
	racerSeq := 0
	o.BeforeHand = func(s *sim.Sim, n int) bool {
		if s.GateArmed == nil || !choose.Chance(c.Ch, "race.reserve", 25) {
			return true
		}
		free := len(sim.FreeSeats(s.Now()))
		k := c.Ch.Int("race.reserve.n", 1, 3)
		if k > free {
			k = free
		}
		if k == 0 {
			return true
		}
		r := &racing{done: make(chan struct{}), errs: make([]error, k)}
		for i := 0; i < k; i++ {
			racerSeq++
			r.ids = append(r.ids, fmt.Sprintf("r%02d", racerSeq))
		}
		delay := time.Duration(c.Ch.Int("race.reserve.delay", 0, 60)) * 5 * time.Microsecond
		rc = r
		api := s.API
		go func() {
			defer close(r.done)
			time.Sleep(delay)
			for i, id := range r.ids {
				r.errs[i] = api.PlayerReserve(pokertable.JoinPlayer{PlayerID: id, RedeemChips: 100, Seat: -1})
			}
		}()
		return true
	}
	userOpened := hooks.Opened
	hooks.Opened = func(s *sim.Sim, h *sim.Hand) {
		if userOpened != nil {
			userOpened(s, h)
		}
		settleRacing(s)
	}
	o.AfterHand = func(s *sim.Sim, h *sim.Hand) {
		settleRacing(s)
		if h.After == nil {
			return
		}
		// the hand still settles with chips conserved
		l.checkHand(s, h)
		l.checkSum(fmt.Sprintf("after hand %d", h.N), h.After)
	}
	s := RunHistory(c, o, hooks, nil)
	if l != nil {
		settleRacing(s)
	}
	if handEndedInBurst {
		// wait for the engine to finish the continuation, then the table must balance
		deadline := time.Now().Add(3 * time.Second)
		for time.Now().Before(deadline) {
			st := s.TE.GetTable().State.Status
			if st == pokertable.TableStateStatus_TableGameStandby || st == pokertable.TableStateStatus_TablePausing {
				break
			}
			time.Sleep(time.Millisecond)
		}
		time.Sleep(2 * time.Millisecond)
		if st := s.TE.GetTable().State.Status; st != pokertable.TableStateStatus_TableGameStandby && st != pokertable.TableStateStatus_TablePausing {
			c.Failf("C16.hand-stuck-after-burst", "a burst of simultaneous actions ended the hand but the table did not settle it (status %s)", st)
		}
		l.checkSum("after the hand that ended in a burst", s.Now())
	} else if s.Stall != "" && s.LabelSet["burst"] && s.Cur != nil && s.Cur.Opened != nil && s.Cur.SettledT == nil {
		c.Failf("C16.hand-stuck-after-burst", "the hand did not settle after a burst of simultaneous actions: %s", s.Stall)
	}
	s.Label(fmt.Sprintf("GOMAXPROCS%d", runtime.GOMAXPROCS(0)))
	c.St.Case(s.Labels(), nontrivial, traceOf(s), sampleOf(s))
}

func nameAt(m []string, i int) string {
	if i >= 0 && i < len(m) {
		return m[i]
	}
	return "?"
}

func TestC16Actions(t *testing.T) {
	run.Property(t, "C16", "c16c", c16cStats, run.Scale(10, 100), c16cBody)
}

// TestC10Burst runs the simultaneous-submission check under property C10 as well:
// C10 quantifies over actions "submitted sequentially or concurrently from many
// goroutines"; the sequential part is c10, this is the concurrent part.
var c10bStats = ev.New("C10", "c10b")

func TestC10Burst(t *testing.T) {
	run.Property(t, "C10", "c10b", c10bStats, run.Scale(10, 100), c16cBody)
}
