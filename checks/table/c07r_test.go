package table

import (
	"fmt"
	"testing"
	"time"

	"github.com/weedbox/pokertable"

	"verif/harness/choose"
	"verif/harness/ev"
	"verif/harness/run"
	"verif/harness/sim"
)

var c07rStats = ev.New("C07", "c07r")

// C07, last sentence: "No hand opens ... while the blind level is a break, or before
// blinds are set" - driven through the engine's open retry path. The gate fires while
// the blinds are still unset, so the first open attempt fails and the engine sleeps
// 3 s (holding its lock) before it tries again. During that window the harness applies a
// drawn script of blind updates (UpdateBlind is lock free). Whatever is in force when the
// script ends decides the outcome of the next attempt:
//
//	break  -> no hand may open (game count stays 0, no hand state, status never opened/playing)
//	valid  -> the hand that opens carries game count 1 and is played at exactly that level
//
// Soundness of the timing: the second attempt cannot run earlier than 3 s after the
// first, and the first cannot run before the first signal is delivered; a case whose
// script did not finish within 2.5 s of that moment is dropped (counted), never judged.
func c07RetryBody(c *run.Ctx) {
	cfg := sim.GenConfig(c.Ch, sim.GenOpts{MaxPlayers: 5, ViaCreatePct: 30, AnteePct: 25, ShortStacks: 10, Modes: []int{3, 2, 0}})
	valid := cfg.Blind
	short := cfg.Rule == pokertable.CompetitionRule_ShortDeck
	// unset in one of the ways IsSet() distinguishes
	unsetKind := c.Ch.Int("unset.kind", 0, 2)
	switch unsetKind {
	case 0:
		cfg.Blind.Level = 0
	case 1:
		cfg.Blind.Ante = pokertable.UnsetValue
	case 2:
		cfg.Blind = pokertable.TableBlindState{Level: 0, Ante: pokertable.UnsetValue, Dealer: pokertable.UnsetValue, SB: pokertable.UnsetValue, BB: pokertable.UnsetValue}
	}
	unset := cfg.Blind
	opened := 0
	var openedAt *pokertable.Table
	var hooks sim.Hooks
	hooks.Event = func(s *sim.Sim, e *sim.Event) {
		if e.Table == nil || (e.Kind != "table" && e.Kind != "state") {
			return
		}
		st := e.Table.State
		if st.Status == pokertable.TableStateStatus_TableGameOpened || st.Status == pokertable.TableStateStatus_TableGamePlaying || st.GameState != nil || st.GameCount > 0 {
			if opened == 0 {
				openedAt = e.Table
			}
			opened++
		}
	}
	s := sim.New(c.Ch, cfg, hooks)
	c.Defer(s.Finish)
	if s.CreateErr != nil {
		c.Failf(c.Prop+".valid-setup-refused", "creating a table with unset blinds failed: %s: %v", cfg.String(), s.CreateErr)
	}
	if len(sim.LivePlayers(s.Now())) < 2 {
		c.St.Exclude("retry_too_few_live", 1)
		return
	}
	if !s.StartFirst(nil) {
		c.Inconclusive("first set-up did not complete: %s", s.Stall)
	}
	plan := s.PlanSignals(0)
	t0 := time.Now()
	s.Deliver(plan)
	s.GateArmed = nil
	// the engine now sits in its retry sleep holding the lock: observe that
	held := 0
	for i := 0; i < 400 && held < 20; i++ {
		if pokertable.VerifTryLock(s.TE) {
			held = 0
		} else {
			held++
		}
		time.Sleep(time.Millisecond)
	}
	s.Drain()
	if opened > 0 {
		c.Failf(c.Prop+".opened-before-blinds-set", "a hand opened although blinds were never set (%+v): status %s count %d", unset, openedAt.State.Status, openedAt.State.GameCount)
	}
	if held < 20 {
		c.Inconclusive("engine did not enter the open retry")
	}
	// the script
	n := c.Ch.Int("script.n", 1, 3)
	inForce := unset
	level := 1
	var script []string
	for i := 0; i < n; i++ {
		time.Sleep(time.Duration(c.Ch.Int("script.gap", 0, 5)) * 100 * time.Millisecond)
		var b pokertable.TableBlindState
		k := choose.Weighted(c.Ch, "script.kind", []int{4, 4, 1})
		if i == n-1 && k == 2 {
			k = c.Ch.Int("script.final", 0, 1)
		}
		switch k {
		case 0:
			level++
			bb := int64(2 * (1 + c.Ch.Int("script.bb", 0, 20)))
			b = pokertable.TableBlindState{Level: level, BB: bb, SB: bb / 2}
			if short {
				b = pokertable.TableBlindState{Level: level, Ante: 1 + int64(c.Ch.Int("script.ante", 0, 3)), Dealer: bb}
			} else if choose.Chance(c.Ch, "script.ante?", 30) {
				b.Ante = 1 + int64(c.Ch.Int("script.ante", 0, int(bb)))
			}
			if i == 0 && choose.Chance(c.Ch, "script.cfgvalid", 30) {
				b = valid
			}
			script = append(script, "valid")
		case 1:
			b = pokertable.TableBlindState{Level: -1, Ante: valid.Ante, Dealer: valid.Dealer, SB: valid.SB, BB: valid.BB}
			if choose.Chance(c.Ch, "script.breakzero", 30) {
				b = pokertable.TableBlindState{Level: -1}
			}
			script = append(script, "break")
		case 2:
			b = unset
			script = append(script, "unset")
		}
		if err := s.API.UpdateBlind(b.Level, b.Ante, b.Dealer, b.SB, b.BB); err != nil {
			c.Failf(c.Prop+".update-error", "UpdateBlind failed: %v", err)
		}
		c.Ch.Note("  UpdateBlind(%+v) during the open retry", b)
		inForce = b
	}
	elapsed := time.Since(t0)
	if elapsed > 2500*time.Millisecond {
		c.St.Exclude("retry_script_too_slow", 1)
		return
	}
	s.Drain()
	if opened > 0 {
		c.Failf(c.Prop+".opened-during-retry-sleep", "a hand opened %v after the gate fired with unset blinds, before the 3 s retry could have run", elapsed)
	}
	kind := script[len(script)-1]
	s.Label("retry_final_" + kind)
	s.Label(fmt.Sprintf("retry_script_%d", len(script)))
	s.Label(fmt.Sprintf("retry_unset_kind_%d", unsetKind))
	switch kind {
	case "break":
		// wait for tableGameOpen to give up (lock released), then look
		free := false
		for i := 0; i < 1200 && !free; i++ {
			time.Sleep(5 * time.Millisecond)
			free = pokertable.VerifTryLock(s.TE)
		}
		if !free {
			c.Inconclusive("engine kept its lock for 6 s after a break was set during the open retry")
		}
		s.Quiesce(300 * time.Millisecond)
		s.Drain()
		now := s.Now()
		if opened > 0 || now.State.GameCount != 0 || now.State.GameState != nil {
			t := now
			if openedAt != nil {
				t = openedAt
			}
			c.Failf(c.Prop+".opened-on-break.retry", "a hand opened while the blind level is a break (script %v after a failed first attempt): status %s, game count %d, blind %+v", script, t.State.Status, t.State.GameCount, *t.State.BlindState)
		}
		// control: resume and play one hand
		if err := s.API.UpdateBlind(valid.Level+10, valid.Ante, valid.Dealer, valid.SB, valid.BB); err != nil {
			c.Failf(c.Prop+".update-error", "UpdateBlind failed: %v", err)
		}
		if s.SetupGate(nil) {
			h := s.PlayHand(s.PlanSignals(0))
			if h.Opened != nil {
				if h.GameCount != 1 {
					c.Failf(c.Prop+".game-count", "first hand after the break has game count %d", h.GameCount)
				}
				s.Label("retry_resumed_after_break")
			}
		}
	case "valid":
		s.OpenWaitExtra = 6 * time.Second
		h := s.PlayHand(sim.SignalPlan{})
		if h.Opened == nil {
			c.Inconclusive("no hand opened on the retry after blinds were set: %s", s.Stall)
		}
		if h.GameCount != 1 {
			c.Failf(c.Prop+".game-count", "first hand has game count %d", h.GameCount)
		}
		if h.BEHand != nil && h.BEHand.Opts != nil {
			op := h.BEHand.Opts
			if op.Ante != inForce.Ante || op.Blind.Dealer != inForce.Dealer || op.Blind.SB != inForce.SB || op.Blind.BB != inForce.BB {
				c.Failf(c.Prop+".retry-blinds", "hand opened on the retry is played with ante %d blinds %+v; in force when it opened: %+v (script %v)", op.Ante, op.Blind, inForce, script)
			}
		}
		s.Label("retry_opened_after_blinds_set")
	}
	c.St.Case(s.Labels(), true, fmt.Sprintf("retry:%v:u%d:%d", script, unsetKind, len(cfg.Players)), sampleOf(s))
}

func TestC07Retry(t *testing.T) {
	run.Property(t, "C07", "c07r", c07rStats, run.Scale(3, 12), c07RetryBody)
}

// The same scenarios under C12: a hand opened by the retry path is created with the blinds
// in force when it opened (not those of the failed first attempt), and no hand opens on a break.
var c12rStats = ev.New("C12", "c12r")

func TestC12Retry(t *testing.T) {
	run.Property(t, "C12", "c12r", c12rStats, run.Scale(3, 12), c07RetryBody)
}
