package table

import (
	"fmt"
	"testing"
	"time"

	"github.com/weedbox/pokertable"

	"verif/harness/ev"
	"verif/harness/run"
	"verif/harness/sim"
)

var c03jStats = ev.New("C03", "c03j")

// The last reserved player sitting in completes the engine's auto-join group, whose
// completion callback runs on a goroutine of its own and walks the player list. A
// membership change issued by the caller right after that join (no fence, no pause - as
// a competition server would) meets that callback half way. Whatever the interleaving,
// the process must survive and seat map, player list and seat manager must agree once
// things are quiet. (On the pinned tree the callback re-indexed the player list with
// positions of a loop over the old list: a departure in between crashed the process.)
func c03JoinLeaveBody(c *run.Ctx) {
	// CT and cash tables only: an MTT table starts itself from that same callback (unlocked
	// StartTableGame publishing the live table), which is outside what C03 / C16 state - see DESIGN.md section 5, observations
	cfg := sim.GenConfig(c.Ch, sim.GenOpts{MinSeats: 3, MaxPlayers: 6, MinPlayersAtStart: 2, SitOutPct: 0, Modes: []int{3, 2, 0}})
	if len(cfg.Players) < 3 {
		cfg.Players = append(cfg.Players, sim.PlayerSpec{ID: sim.PlayerID(len(cfg.Players)), Seat: -1, Chips: 100})
		if cfg.Seats < 3 {
			cfg.Seats = 3
		}
	}
	// everybody reserved; all but the last seated-in
	last := len(cfg.Players) - 1
	for i := range cfg.Players {
		cfg.Players[i].Join = i != last
	}
	cfg.Players[last].Seat = -1
	s := sim.New(c.Ch, cfg, sim.Hooks{})
	c.Defer(s.Finish)
	if s.CreateErr != nil {
		c.Failf("C03.valid-setup-refused", "creating the table failed for %s: %v", cfg.String(), s.CreateErr)
	}
	sm := pokertable.VerifSeatManager(s.TE)
	// the racing pair, back to back on the caller's goroutine
	victim := cfg.Players[c.Ch.Int("victim", 0, last-1)].ID
	kind := c.Ch.Int("kind", 0, 3)
	if len(sim.FreeSeats(s.Now())) == 0 && kind == 3 {
		kind = 0
	}
	spin := c.Ch.Int("spin", 0, 40)
	var err1, err2 error
	done := make(chan struct{})
	go func() {
		defer close(done)
		err1 = s.API.PlayerJoin(cfg.Players[last].ID)
		for i := 0; i < spin*50; i++ {
			_ = i // a few hundred nanoseconds to microseconds
		}
		switch kind {
		case 0:
			err2 = s.API.PlayersLeave([]string{victim})
		case 1:
			_, err2 = s.API.UpdateTablePlayers(nil, []string{victim})
		case 2:
			err2 = s.API.PlayersLeave([]string{victim, cfg.Players[last].ID})
		case 3:
			// a reservation right behind the join: it re-arms the auto-join group while that
			// group's worker may still be validating the join
			err2 = s.API.PlayerReserve(pokertable.JoinPlayer{PlayerID: "late", RedeemChips: 100, Seat: -1})
		}
	}()
	select {
	case <-done:
	case <-time.After(20 * time.Second):
		if sim.Starved() {
			select {
			case <-done:
				s.Label("wait_extended_machine_starved")
			case <-time.After(80 * time.Second):
			}
		}
		select {
		case <-done:
			goto returned
		default:
		}
		c.Failf("C03.membership-call-never-returned", "PlayerJoin(%s) followed at once by operation kind %d (0/1/2 = departure, 3 = reservation of a newcomer) did not return within 20 s: the engine is dead-locked", cfg.Players[last].ID, kind)
	}
returned:
	c.Ch.Note("join(%s)=%v then leave kind %d (%s)=%v, spin %d", cfg.Players[last].ID, err1, kind, victim, err2, spin)
	if err1 != nil || err2 != nil {
		c.Failf("C03.refused.join-then-leave", "valid operations refused: join %v, leave %v", err1, err2)
	}
	// quiet: the callback goroutine is done when the engine lock is free and nothing arrives
	time.Sleep(300 * time.Microsecond)
	s.Quiesce(200 * time.Millisecond)
	t := s.Now()
	sig, msg := seatConsistency(t, sm)
	for retry := 0; sig != "" && retry < 40; retry++ {
		time.Sleep(500 * time.Microsecond)
		t = s.Now()
		sig, msg = seatConsistency(t, sm)
	}
	if sig != "" {
		c.Failf(sig, "after join-then-leave: %s; %s | sm: %s", msg, tableSummary(t), smDump(sm))
	}
	if kind != 3 && sim.FindPlayer(t, victim) != nil {
		c.Failf("C03.leaver-still-present", "%s left but is still at the table: %s", victim, tableSummary(t))
	}
	if kind == 3 && sim.FindPlayer(t, "late") == nil {
		c.Failf("C03.newcomer-missing", "the reservation of a newcomer was accepted but he is not at the table: %s", tableSummary(t))
	}
	c.St.Case([]string{fmt.Sprintf("join_then_leave_kind_%d", kind), "join_then_leave"}, true, fmt.Sprintf("jl:%d:%d:%d:%s", len(cfg.Players), kind, spin/8, cfg.Mode), nil)
}

func TestC03JoinLeave(t *testing.T) {
	run.Property(t, "C03", "c03j", c03jStats, run.Scale(400, 6000), c03JoinLeaveBody)
}
