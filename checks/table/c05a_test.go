package table

import (
	"fmt"
	"sort"
	"sync"
	"testing"
	"time"

	"github.com/weedbox/pokertable"

	"verif/harness/choose"
	"verif/harness/ev"
	"verif/harness/run"
	"verif/harness/sim"
)

// TestC05AutoSeat: players who reserve and never sit in by themselves are seated in by the
// engine when its 17 s sit-in period runs out. Whoever the table then shows as seated-in with
// chips must be dealt into the first hand (nobody waits for the blind before positions are
// set), and table and seat manager must agree about the seated-in flags. The wait is real, so
// the tables run side by side and the 17 s are paid once.
var c05aStats = ev.New("C05", "c05a")

type c05aOutcome struct {
	rec      *choose.Recorder
	sig, msg string
	skipped  string
	labels   []string
	desc     string
}

func c05aTable(seed uint64) (out c05aOutcome) {
	rec := choose.NewRecorder(seededCh{choose.NewSplitMix(seed)})
	out = c05aOutcome{rec: rec}
	cfg := sim.GenConfig(rec, sim.GenOpts{MaxPlayers: 7, SitOutPct: 45, Modes: []int{3, 2, 0}, Rules: []int{4, 1}})
	sitters := 0
	for _, p := range cfg.Players {
		if !p.Join {
			sitters++
		}
	}
	if sitters == 0 && len(cfg.Players) > 0 {
		cfg.Players[rec.Int("force.sitter", 0, len(cfg.Players)-1)].Join = false
		sitters = 1
	}
	var hooks sim.Hooks
	s := sim.New(rec, cfg, hooks)
	defer s.Finish()
	if s.CreateErr != nil {
		out.skipped = "create_refused"
		return
	}
	out.desc = cfg.String()
	// wait for the engine to seat everybody in (17 s after the last reservation)
	deadline := time.Now().Add(17*time.Second + 8*time.Second)
	allIn := func() bool {
		for _, p := range s.Now().State.PlayerStates {
			if !p.IsIn {
				return false
			}
		}
		return true
	}
	for !allIn() && time.Now().Before(deadline) {
		s.WaitFor(200*time.Millisecond, func(e *sim.Event) bool { return false })
	}
	if !allIn() {
		out.skipped = "auto_seat_did_not_happen"
		return
	}
	s.Drain()
	now := s.Now()
	// the engine's sit-in (PlayerJoin from the auto-join group's goroutine, no engine lock) sets
	// the table's flag first and tells the seat manager a moment later: sample until both agree,
	// and only call a difference that is still there after a second a violation
	for i := 0; ; i++ {
		sig, msg := seatConsistency(now, pokertable.VerifSeatManager(s.TE))
		if sig == "" {
			break
		}
		if i >= 200 {
			out.sig, out.msg = "C05.auto-seated-flags", fmt.Sprintf("a second after the engine seated the reserved players in: %s %s", sig, msg)
			return
		}
		time.Sleep(5 * time.Millisecond)
		s.Drain()
		now = s.Now()
	}
	want := []string{}
	for _, p := range now.State.PlayerStates {
		if p.IsIn && p.Bankroll > 0 {
			want = append(want, p.PlayerID)
		}
	}
	sort.Strings(want)
	if len(want) < 2 {
		out.skipped = "fewer_than_two_with_chips"
		return
	}
	s.StepWait = 4 * time.Second
	if !s.StartFirst(nil) {
		out.skipped = "first_hand_not_started"
		return
	}
	h := s.PlayHand(s.PlanSignals(0))
	if h == nil || h.Opened == nil {
		// not judged here: whether a hand opens at all is C08's question, and with hundreds of
		// tables started in the same instant the driver's own step wait can run out (seen once in
		// 640 tables of the thorough tier, not triaged further)
		out.skipped = "first_hand_did_not_open_within_the_step_wait"
		return
	}
	got := append([]string(nil), h.M...)
	sort.Strings(got)
	if fmt.Sprint(got) != fmt.Sprint(want) {
		out.sig, out.msg = "C05.eligible-not-dealt", fmt.Sprintf("first hand after the engine seated the reserved players in: dealt in %v, seated-in with chips %v", got, want)
		return
	}
	out.labels = []string{"auto_seated_by_engine", fmt.Sprintf("auto_seated_%d", sitters), fmt.Sprintf("dealt_in_%d", len(got))}
	return
}

func TestC05AutoSeat(t *testing.T) {
	defer c05aStats.Write()
	n := run.Scale(16, 160)
	seed := uint64(run.Seed())*7793 + uint64(run.Shard())*389
	outs := make([]c05aOutcome, n)
	var wg sync.WaitGroup
	for i := 0; i < n; i++ {
		wg.Add(1)
		go func(i int) {
			defer wg.Done()
			defer func() {
				if r := recover(); r != nil && !run.IsCaseEnd(r) {
					outs[i].skipped = fmt.Sprintf("panic: %v", r)
				}
			}()
			outs[i] = c05aTable(seed + uint64(i))
		}(i)
	}
	wg.Wait()
	for i, o := range outs {
		if o.skipped != "" {
			c05aStats.Exclude("auto_seat_"+o.skipped, 1)
			continue
		}
		if o.sig != "" {
			c := &run.Ctx{Prop: "C05", Check: "c05a", TB: t, St: c05aStats, Ch: o.rec}
			func() {
				defer func() { recover() }()
				c.Failf(o.sig, "%s | %s", o.msg, o.desc)
			}()
			continue
		}
		c05aStats.Case(o.labels, true, fmt.Sprintf("%d-%s", i, o.desc), func() interface{} { return o.desc })
	}
}
