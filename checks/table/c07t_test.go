package table

import (
	"fmt"
	"testing"
	"time"

	"github.com/weedbox/pokertable"

	"verif/harness/ev"
	"verif/harness/run"
	"verif/harness/sim"
)

var c07tStats = ev.New("C07", "c07t")

// A CT or cash table whose duration has run out stops opening hands by itself, but the hand
// that is settled after the deadline still goes settled -> standby with every per-hand field
// reset, and nothing opens afterwards without a new set-up from outside.
func c07TimeUpBody(c *run.Ctx) {
	cfg := sim.GenConfig(c.Ch, sim.GenOpts{MaxPlayers: 5, AnteePct: 20, ShortStacks: 10, Modes: []int{1, 1, 0}})
	cfg.MaxDuration = 1
	l := &lifeCycle{c: c, gameIDs: map[string]bool{}}
	var hooks sim.Hooks
	opened := 0
	hooks.Event = func(s *sim.Sim, e *sim.Event) {
		if e.Table == nil || (e.Kind != "table" && e.Kind != "state") {
			return
		}
		if statusClass(e.Table.State.Status) == string(e.Table.State.Status) {
			return // torn status string
		}
		if e.Kind == "table" && e.Table.State.Status == pokertable.TableStateStatus_TableGameOpened && e.Table.State.GameState == nil {
			opened++
		}
	}
	s := sim.New(c.Ch, cfg, hooks)
	c.Defer(s.Finish)
	if s.CreateErr != nil {
		c.Failf("C07.valid-setup-refused", "creating the table failed: %v", s.CreateErr)
	}
	if len(sim.LivePlayers(s.Now())) < 2 {
		c.St.Exclude("timeup_not_startable", 1)
		return
	}
	if !s.StartFirst(nil) {
		c.Inconclusive("first set-up did not complete: %s", s.Stall)
	}
	_ = l
	// hand 1 may or may not end before the deadline; the hand that ends after it is the one judged
	var last *sim.Hand
	for n := 0; n < 3 && s.GateArmed != nil; n++ {
		if n == 1 {
			time.Sleep(2100 * time.Millisecond)
		}
		h := s.PlayHand(s.PlanSignals(0))
		if h.Opened == nil || s.Stall != "" {
			c.Inconclusive("hand did not play out: %s", s.Stall)
		}
		last = h
		if h.Outcome == "autoend" {
			break
		}
	}
	if last == nil || last.Outcome != "autoend" {
		c.St.Exclude("timeup_not_reached", 1)
		return
	}
	after := s.Now()
	if after.State.Status != pokertable.TableStateStatus_TableGameStandby {
		c.Failf("C07.time-up-not-standby", "the table's duration is over and hand %d was settled after it: the status is %s, expected standby", last.N, after.State.Status)
	}
	if v := resetFieldsViolation(after); v != "" {
		c.Failf("C07.not-reset", "after the last hand of a table whose duration is over: %s", v)
	}
	before := opened
	s.WaitFor(400*time.Millisecond, func(e *sim.Event) bool { return false })
	if opened != before || s.Now().State.GameState != nil {
		c.Failf("C07.open-after-time-up", "a hand opened by itself after the table's duration was over")
	}
	c.St.Case([]string{"table_time_up", "table_time_up_" + string(cfg.Mode), fmt.Sprintf("hands_%d", len(s.Hands))}, true, fmt.Sprintf("timeup:%s:%d:%d", cfg.Mode, len(cfg.Players), len(s.Hands)), sampleOf(s))
}

func TestC07TimeUp(t *testing.T) {
	run.Property(t, "C07", "c07t", c07tStats, run.Scale(3, 10), c07TimeUpBody)
}
