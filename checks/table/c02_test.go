package table

import (
	"fmt"
	"sort"
	"strings"
	"testing"
	"time"

	"github.com/weedbox/pokertable"

	"verif/harness/ev"
	"verif/harness/run"
	"verif/harness/sim"
)

var c02Stats = ev.New("C02", "c02")

// clockwiseRotation reports whether list is a rotation of the ids sorted
// clockwise by seat.
func clockwiseRotation(list []string, seatOf map[string]int) bool {
	n := len(list)
	if n == 0 {
		return true
	}
	sorted := append([]string(nil), list...)
	sort.Slice(sorted, func(i, j int) bool { return seatOf[sorted[i]] < seatOf[sorted[j]] })
	for start := 0; start < n; start++ {
		ok := true
		for i := 0; i < n; i++ {
			if sorted[(start+i)%n] != list[i] {
				ok = false
				break
			}
		}
		if ok {
			return true
		}
	}
	return false
}

func c02Body(c *run.Ctx) {
	nontrivial := false
	var M []string
	var open map[string]int64
	bought := map[string]int64{} // chips bought by a player since the current hand opened
	var hooks sim.Hooks
	var callsBefore int
	hooks.Opened = func(s *sim.Sim, h *sim.Hand) {
		t := h.Opened
		M = h.M
		open = map[string]int64{}
		bought = map[string]int64{}
		seatOf := map[string]int{}
		dealt := []string{}
		for _, p := range t.State.PlayerStates {
			open[p.PlayerID] = p.Bankroll
			seatOf[p.PlayerID] = p.Seat
			if p.IsParticipated {
				dealt = append(dealt, p.PlayerID)
			}
		}
		sort.Strings(dealt)
		sm := append([]string(nil), M...)
		sort.Strings(sm)
		if strings.Join(dealt, ",") != strings.Join(sm, ",") {
			c.Failf("C02.list-vs-dealt-in", "hand %d: the hand's player list %v does not name every dealt-in player exactly once (dealt in: %v)", h.N, M, dealt)
		}
		if !clockwiseRotation(M, seatOf) {
			seats := []string{}
			for _, id := range M {
				seats = append(seats, fmt.Sprintf("%s@%d", id, seatOf[id]))
			}
			sig := "C02.not-clockwise"
			if s.Cfg.Rule == pokertable.CompetitionRule_ShortDeck {
				sig = "C02.not-clockwise.short-deck"
			}
			c.Failf(sig, "hand %d (%s): the hand's player list is not in clockwise seat order: %v (dealer seat %d)", h.N, s.Cfg.Rule, seats, t.State.CurrentDealerSeat)
		}
		// classification
		d, sb, bb := t.State.CurrentDealerSeat, t.State.CurrentSBSeat, t.State.CurrentBBSeat
		occupantDealt := func(seat int) bool {
			if seat < 0 || seat >= len(t.State.SeatMap) || t.State.SeatMap[seat] < 0 {
				return false
			}
			return t.State.PlayerStates[t.State.SeatMap[seat]].IsParticipated
		}
		gap := false
		seats := []int{}
		for _, id := range M {
			seats = append(seats, seatOf[id])
		}
		sort.Ints(seats)
		for i := 1; i < len(seats); i++ {
			if seats[i] != seats[i-1]+1 {
				gap = true
			}
		}
		dead := false
		if s.Cfg.Rule == pokertable.CompetitionRule_Default {
			if !occupantDealt(d) {
				s.Label("dead_dealer")
				dead = true
			}
			if sb != d && !occupantDealt(sb) {
				s.Label("dead_sb")
				dead = true
			}
			_ = bb
		}
		sitBetween := false
		for _, p := range t.State.PlayerStates {
			if !p.IsParticipated && len(seats) > 0 && p.Seat > seats[0] && p.Seat < seats[len(seats)-1] {
				sitBetween = true
				s.Label("sitout_between")
			}
		}
		if gap {
			s.Label("gap")
		}
		if gap && (dead || sitBetween) {
			nontrivial = true
		}
		s.Label(fmt.Sprintf("participants_%d", len(M)))
	}
	firstChecked := false
	hooks.Event = func(s *sim.Sim, e *sim.Event) {
		if s.Cur == nil || s.Cur.Opened == nil || e.Table == nil || (e.Kind != "state" && e.Kind != "table") {
			return
		}
		st := e.Table.State.Status
		if st != pokertable.TableStateStatus_TableGamePlaying && st != pokertable.TableStateStatus_TableGameSettled && st != pokertable.TableStateStatus_TableGameOpened {
			return
		}
		if e.Table.State.GameCount != s.Cur.GameCount {
			return
		}
		ids := sim.GameIDs(e.Table)
		if strings.Join(ids, ",") != strings.Join(M, ",") {
			c.Failf("C02.mapping-changed", "hand %d: entry -> player mapping changed while the hand was running: %v, at open %v (%s)", s.Cur.N, ids, M, tableSummary(e.Table))
		}
		gs := e.Table.State.GameState
		if gs != nil && !firstChecked {
			firstChecked = true
			if len(gs.Players) != len(M) {
				c.Failf("C02.hand-size", "hand %d: the hand engine has %d entries, the list has %d", s.Cur.N, len(gs.Players), len(M))
			}
			for i, p := range gs.Players {
				if p.Bankroll != open[M[i]] {
					c.Failf("C02.start-stack", "hand %d: entry %d starts with %d chips, %s had %d at open", s.Cur.N, i, p.Bankroll, M[i], open[M[i]])
				}
			}
		}
		// FindGamePlayerIdx must agree for every participant
		for i, id := range M {
			if got := e.Table.FindGamePlayerIdx(id); got != i {
				c.Failf("C02.find-idx", "hand %d: FindGamePlayerIdx(%s)=%d, entry is %d", s.Cur.N, id, got, i)
			}
		}
	}
	hooks.AtDecision = func(s *sim.Sim, d *sim.Decision) {
		callsBefore = s.BE.NumCalls()
	}
	responded := map[string]bool{}
	var askedNow []string
	userAt := hooks.AtDecision
	hooks.AtDecision = func(s *sim.Sim, d *sim.Decision) {
		userAt(s, d)
		if d.Kind != "turn" {
			responded = map[string]bool{}
			askedNow = d.Asked
		}
	}
	hooks.AfterAct = func(s *sim.Sim, a *sim.ActionRec) {
		if a.Kind == "ready" || a.Kind == "pay" {
			callsBefore = s.BE.NumCalls()
			if a.Err != nil {
				return
			}
			// a response is booked on the submitter's own entry: after it has been processed the
			// hand's ready group shows exactly the entries of the players who responded so far
			responded[a.PID] = true
			if len(responded) >= len(askedNow) {
				return // the group completes and is re-armed for the next request
			}
			rg := pokertable.VerifGameReadyGroup(s.TE)
			if rg == nil {
				return
			}
			ok := false
			var st map[int64]bool
			for i := 0; i < 400 && !ok; i++ {
				st = rg.GetParticipantStates()
				ok = true
				for gi, ready := range st {
					if int(gi) >= len(M) || ready != responded[M[gi]] {
						ok = false
					}
				}
				if !ok {
					time.Sleep(250 * time.Microsecond)
				}
			}
			if !ok {
				got := []string{}
				for gi, ready := range st {
					if ready && int(gi) < len(M) {
						got = append(got, M[gi])
					}
				}
				sort.Strings(got)
				c.Failf("C02.response-attribution", "hand %d: %s by %s was accepted, but the hand has booked responses for %v while %v responded (list %v)", s.Cur.N, a.Kind, a.PID, got, sortedKeys(responded), M)
			}
			s.Label("response_attribution_checked")
			return
		}
		if a.Err != nil {
			callsBefore = s.BE.NumCalls()
			return
		}
		// the backend applied it to the entry whose turn it was; that entry is the submitter
		for _, cl := range s.BE.CallsSince(callsBefore) {
			if cl.Err != "" || strings.ToLower(cl.Kind) != a.Kind {
				continue
			}
			if cl.CurPlayer < 0 || cl.CurPlayer >= len(M) || M[cl.CurPlayer] != a.PID {
				who := "?"
				if cl.CurPlayer >= 0 && cl.CurPlayer < len(M) {
					who = M[cl.CurPlayer]
				}
				c.Failf("C02.action-attribution", "hand %d: %s submitted by %s was applied to entry %d (%s)", s.Cur.N, a.Kind, a.PID, cl.CurPlayer, who)
			}
		}
		callsBefore = s.BE.NumCalls()
	}
	o := HistOpts{
		Gen:          sim.GenOpts{ShortStacks: 35, SitOutPct: 30, ViaCreatePct: 20, RandomSeatPct: 10, AnteePct: 30, Rules: []int{4, 1}},
		MinHands:     2,
		MaxHands:     run.Scale(6, 12),
		BetweenOps:   3,
		BetweenPct:   70,
		Mem:          sim.MemOpts{NewPlayer: 4, NewRandom: 1, JoinSitter: 2, Rebuy: 2, Leave: 4, KeepSitting: 35, MaxNewID: 14, TopupAnyone: true},
		InHandOps:    10,
		InHandMem:    sim.MemOpts{NewPlayer: 4, NewRandom: 1, JoinSitter: 3, Rebuy: 2, Addon: 2, Leave: 3, KeepSitting: 30, MaxNewID: 14, TopupAnyone: true},
		RearmOnLeave: true,
	}
	o.BeforeHand = func(s *sim.Sim, n int) bool { firstChecked = false; return true }
	o.OnStall = func(s *sim.Sim, h *sim.Hand) {
		// a response or action of a dealt-in player, which the published hand state asks for,
		// refused with "player not found": the submitter was translated to the wrong entry
		if h.Opened != nil && strings.Contains(s.Stall, "refused") && strings.Contains(s.Stall, "player not found") {
			c.Failf("C02.own-entry-not-found", "hand %d: %s (list %v)", h.N, s.Stall, h.M)
		}
	}
	o.AfterHand = func(s *sim.Sim, h *sim.Hand) {
		if h.SettledT == nil || h.After == nil {
			return
		}
		res := h.SettledT.State.GameState.Result
		changed := map[string]int64{}
		for _, r := range res.Players {
			if r.Idx >= 0 && r.Idx < len(M) {
				changed[M[r.Idx]] += r.Changed
			}
		}
		for _, p := range h.After.State.PlayerStates {
			o, was := open[p.PlayerID]
			if !was {
				continue
			}
			if p.Bankroll != o+bought[p.PlayerID]+changed[p.PlayerID] {
				c.Failf("C02.result-credit", "hand %d: %s has %d after the hand, bankroll at open %d + chips bought during the hand %d + result of their entry %d (results by entry: %v)", h.N, p.PlayerID, p.Bankroll, o, bought[p.PlayerID], changed[p.PlayerID], changed)
			}
			if bought[p.PlayerID] != 0 && inList(M, p.PlayerID) {
				s.Label("participant_bought_chips_during_hand")
			}
		}
		if s.LabelSet["inhand_reserve"] || s.LabelSet["inhand_leave"] || s.LabelSet["inhand_join"] {
			nontrivial = true
		}
	}
	onOp := func(s *sim.Sim, op *sim.OpRec) {
		// chips bought while the hand runs come on top of the hand's result
		if op.Err == nil && op.InHand && (op.Kind == "rebuy" || op.Kind == "redeem") {
			bought[op.IDs[0]] += op.Chips
		}
		// a player who left is gone; a later namesake is a new player
		after := map[string]bool{}
		for _, p := range op.After.State.PlayerStates {
			after[p.PlayerID] = true
		}
		for _, p := range op.Before.State.PlayerStates {
			if !after[p.PlayerID] {
				delete(open, p.PlayerID)
			}
		}
	}
	s := RunHistory(c, o, hooks, onOp)
	c.St.Case(s.Labels(), nontrivial, traceOf(s), sampleOf(s))
}

func TestC02(t *testing.T) {
	run.Property(t, "C02", "c02", c02Stats, run.Scale(20, 200), c02Body)
}
