package table

import (
	"encoding/json"
	"errors"
	"fmt"
	"regexp"
	"sort"
	"strings"
	"testing"
	"time"

	"github.com/weedbox/pokertable"

	"verif/harness/choose"
	"verif/harness/ev"
	"verif/harness/run"
)

// ---------------------------------------------------------------------------
// (1) forwarding: the whole table-history driver is routed through the Manager
// and the oracles of C01 (membership / chips), C10 (which action took effect,
// refusals), C12 (UpdateBlind), C15 (deadline extension value) and the driver's
// own progress (start / set-up / settlement-finish / pause paths) apply
// unchanged. A forwarder wired to the wrong engine method fails one of them.

var c17fStats = ev.New("C17", "c17f")

func TestC17Facade(t *testing.T) {
	facadeViaManager = true
	defer func() { facadeViaManager = false }()
	run.Property(t, "C17", "c17f", c17fStats, run.Scale(12, 100), func(c *run.Ctx) {
		c.St = c17fStats
		switch choose.Weighted(c.Ch, "facade.body", []int{3, 3, 2, 2}) {
		case 0:
			c01Body(c)
		case 1:
			c10Body(c)
		case 2:
			c12Body(c)
		default:
			c15Body(c)
		}
	})
}

// ---------------------------------------------------------------------------
// (2) twin equality, (3) isolation, (4) not-found

var c17Stats = ev.New("C17", "c17")

func normTable(t *pokertable.Table) string {
	if t == nil {
		return "nil"
	}
	c := *t
	c.UpdateSerial, c.UpdateAt = 0, 0
	st := *t.State
	st.StartAt = 0
	if st.StartAt != pokertable.UnsetValue && t.State.StartAt != pokertable.UnsetValue {
		st.StartAt = 1
	}
	c.State = &st
	b, _ := json.Marshal(c)
	return string(b)
}

// maskSeatedIn blanks every seated-in flag of a normalised table JSON. The engine's
// auto-join group completes on a goroutine of its own and then seats every reserved player
// in; whether a player added right after the completing PlayerJoin is still caught by that
// callback depends on scheduling (DESIGN.md section 5, observations), so two twins - or one
// table before and after an unrelated call - may legitimately differ in these flags only.
var seatedInRe = regexp.MustCompile(`"is_in":(true|false)`)

func maskSeatedIn(norm string) string { return seatedInRe.ReplaceAllString(norm, `"is_in":"-"`) }

// gateOf renders the state of a table's open-game gate (game count, participants, who has
// signalled), or "not-found".
func gateOf(m pokertable.Manager, id string) string {
	te, err := m.GetTableEngine(id)
	if err != nil || te == nil {
		return "not-found"
	}
	g := pokertable.VerifOpenGameManager(te)
	if g == nil {
		return "no-gate"
	}
	st := g.GetState()
	ks := []string{}
	for pid, p := range st.Participants {
		if p != nil {
			ks = append(ks, fmt.Sprintf("%s:%d:%v", pid, p.Index, p.IsReady))
		}
	}
	sort.Strings(ks)
	return fmt.Sprintf("gc=%d [%s]", st.GameCount, strings.Join(ks, " "))
}

type mtable struct {
	id     string
	seats  int
	closed bool
}

func c17Body(c *run.Ctx) {
	mA, mB := pokertable.NewManager(), pokertable.NewManager()
	nTables := c.Ch.Int("tables", 1, 6)
	tables := []*mtable{}
	labels := map[string]bool{fmt.Sprintf("tables_%d", nTables): true}
	methods := map[string]bool{}
	for i := 0; i < nTables; i++ {
		id := fmt.Sprintf("T%d", i)
		seats := c.Ch.Int("seats", 2, 10)
		setting := pokertable.TableSetting{TableID: id, Meta: pokertable.TableMeta{CompetitionID: "c", Rule: pokertable.CompetitionRule_Default, Mode: pokertable.CompetitionMode_CT, MaxDuration: 1000000, TableMaxSeatCount: seats, TableMinPlayerCount: 2, ActionTime: 10},
			Blind: pokertable.TableBlindState{Level: 1, SB: int64(5 * (i + 1)), BB: int64(10 * (i + 1))}}
		ta, ea := mA.CreateTable(nil, nil, setting)
		tb, eb := mB.CreateTable(nil, nil, setting)
		methods["CreateTable"] = true
		if (ea == nil) != (eb == nil) || ea != nil {
			c.Failf("C17.create", "CreateTable differs or fails: %v / %v", ea, eb)
		}
		if normTable(ta) != normTable(tb) {
			c.Failf("C17.create-state", "twin tables differ after creation")
		}
		tables = append(tables, &mtable{id: id, seats: seats})
	}
	engB := func(id string) pokertable.TableEngine {
		te, err := mB.GetTableEngine(id)
		if err != nil {
			return nil
		}
		return te
	}
	snapshotAll := func(m pokertable.Manager) map[string]string {
		out := map[string]string{}
		for _, t := range tables {
			if te, err := m.GetTableEngine(t.id); err == nil {
				out[t.id] = normTable(te.GetTable())
			} else {
				out[t.id] = "not-found"
			}
		}
		return out
	}
	sameErr := func(a, b error) bool {
		return (a == nil && b == nil) || (a != nil && b != nil && a.Error() == b.Error())
	}
	steps := c.Ch.Int("steps", 1, 40)
	touched := map[string]bool{}
	groups := map[string]bool{}
	playerN := 0
	trace := []string{}
	for i := 0; i < steps; i++ {
		// target: an existing table, or an id that was never created / was closed / released
		var id string
		kindID := choose.Weighted(c.Ch, "target", []int{8, 1})
		var tb *mtable
		if kindID == 0 {
			tb = tables[c.Ch.Int("which", 0, len(tables)-1)]
			id = tb.id
		} else {
			id = "never-created"
			labels["unknown_id"] = true
		}
		before := snapshotAll(mA)
		op := c.Ch.Int("op", 0, 25)
		var ea, eb error
		var ra, rb interface{}
		eng := engB(id)
		notFound := eng == nil
		pid := fmt.Sprintf("q%d", c.Ch.Int("pid", 0, 5))
		amount := int64(1 + c.Ch.Int("amount", 0, 300))
		name := ""
		viaEngine := func(f func(te pokertable.TableEngine) error) error {
			if eng == nil {
				return pokertable.ErrManagerTableNotFound
			}
			return f(eng)
		}
		switch op {
		case 0:
			name = "PauseTable"
			ea, eb = mA.PauseTable(id), viaEngine(func(te pokertable.TableEngine) error { return te.PauseTable() })
			groups["table"] = true
		case 1:
			name = "CloseTable"
			ea = mA.CloseTable(id)
			eb = viaEngine(func(te pokertable.TableEngine) error { return te.CloseTable() })
			if eng != nil {
				mB.CloseTable(id) // the engine call does not unregister; do it through the twin manager as well
			}
			if tb != nil && ea == nil {
				tb.closed = true
				labels["closed_id"] = true
			}
			groups["table"] = true
		case 2:
			name = "ReleaseTable"
			ea = mA.ReleaseTable(id)
			eb = viaEngine(func(te pokertable.TableEngine) error { return te.ReleaseTable() })
			if eng != nil {
				mB.ReleaseTable(id)
			}
			if tb != nil && ea == nil {
				tb.closed = true
				labels["released_id"] = true
			}
			groups["table"] = true
		case 3:
			name = "StartTableGame"
			ea, eb = mA.StartTableGame(id), viaEngine(func(te pokertable.TableEngine) error { return te.StartTableGame() })
			groups["table"] = true
		case 4:
			name = "UpdateBlind"
			lv := c.Ch.Int("level", 1, 9)
			ea = mA.UpdateBlind(id, lv, amount%7, amount%5, amount, amount*2)
			eb = viaEngine(func(te pokertable.TableEngine) error {
				te.UpdateBlind(lv, amount%7, amount%5, amount, amount*2)
				return nil
			})
			groups["table"] = true
		case 5:
			name = "SetUpTableGame"
			// an empty participant set never completes: no hand is started by this sequence
			gcN := c.Ch.Int("setup.gc", 1, 4)
			ea = mA.SetUpTableGame(id, gcN, map[string]int{})
			eb = viaEngine(func(te pokertable.TableEngine) error { te.SetUpTableGame(gcN, map[string]int{}); return nil })
			groups["table"] = true
		case 6:
			name = "UpdateTablePlayers"
			playerN++
			jp := []pokertable.JoinPlayer{{PlayerID: fmt.Sprintf("n%d", playerN), RedeemChips: amount, Seat: c.Ch.Int("seat", 0, 9)}}
			var leave []string
			if choose.Chance(c.Ch, "leave", 40) {
				leave = []string{pid}
			}
			if choose.Chance(c.Ch, "update.empty", 10) {
				jp, leave = nil, nil
				labels["update_with_nothing_to_do"] = true
			}
			var ma, mb map[string]int
			ma, ea = mA.UpdateTablePlayers(id, jp, leave)
			eb = viaEngine(func(te pokertable.TableEngine) error { var e error; mb, e = te.UpdateTablePlayers(jp, leave); return e })
			ra, rb = fmt.Sprint(ma), fmt.Sprint(mb)
			groups["table"] = true
		case 7:
			name = "PlayerReserve"
			jp := pokertable.JoinPlayer{PlayerID: pid, RedeemChips: amount, Seat: c.Ch.Int("seat", 0, 9)}
			ea, eb = mA.PlayerReserve(id, jp), viaEngine(func(te pokertable.TableEngine) error { return te.PlayerReserve(jp) })
			groups["player-table"] = true
		case 8:
			name = "PlayerJoin"
			ea, eb = mA.PlayerJoin(id, pid), viaEngine(func(te pokertable.TableEngine) error { return te.PlayerJoin(pid) })
			groups["player-table"] = true
		case 9:
			name = "PlayerSettlementFinish"
			ea, eb = mA.PlayerSettlementFinish(id, pid), viaEngine(func(te pokertable.TableEngine) error { return te.PlayerSettlementFinish(pid) })
			groups["player-table"] = true
		case 10:
			name = "PlayerRedeemChips"
			jp := pokertable.JoinPlayer{PlayerID: pid, RedeemChips: amount}
			ea, eb = mA.PlayerRedeemChips(id, jp), viaEngine(func(te pokertable.TableEngine) error { return te.PlayerRedeemChips(jp) })
			groups["player-table"] = true
		case 11:
			name = "PlayersLeave"
			ids := []string{pid}
			if choose.Chance(c.Ch, "leave.empty", 20) {
				// nobody to remove ("everybody who busted leaves" after a hand without busts): the
				// engine still publishes an update; an unknown table is still not found
				ids = []string{}
				if choose.Chance(c.Ch, "leave.nil", 50) {
					ids = nil
				}
				labels["players_leave_empty_list"] = true
			}
			ea, eb = mA.PlayersLeave(id, ids), viaEngine(func(te pokertable.TableEngine) error { return te.PlayersLeave(ids) })
			groups["player-table"] = true
		case 12:
			name = "PlayerExtendActionDeadline"
			var va, vb int64
			d := c.Ch.Int("dur", 0, 60)
			va, ea = mA.PlayerExtendActionDeadline(id, pid, d)
			if eng == nil {
				vb, eb = -1, pokertable.ErrManagerTableNotFound
			} else {
				vb, eb = eng.PlayerExtendActionDeadline(pid, d)
			}
			ra, rb = va, vb
			groups["player-game"] = true
		case 13:
			name = "PlayerReady"
			ea, eb = mA.PlayerReady(id, pid), viaEngine(func(te pokertable.TableEngine) error { return te.PlayerReady(pid) })
			groups["player-game"] = true
		case 14:
			name = "PlayerPay"
			ea, eb = mA.PlayerPay(id, pid, amount), viaEngine(func(te pokertable.TableEngine) error { return te.PlayerPay(pid, amount) })
			groups["player-game"] = true
		case 15:
			name = "PlayerBet"
			ea, eb = mA.PlayerBet(id, pid, amount), viaEngine(func(te pokertable.TableEngine) error { return te.PlayerBet(pid, amount) })
			groups["player-game"] = true
		case 16:
			name = "PlayerRaise"
			ea, eb = mA.PlayerRaise(id, pid, amount), viaEngine(func(te pokertable.TableEngine) error { return te.PlayerRaise(pid, amount) })
			groups["player-game"] = true
		case 17:
			name = "PlayerCall"
			ea, eb = mA.PlayerCall(id, pid), viaEngine(func(te pokertable.TableEngine) error { return te.PlayerCall(pid) })
			groups["player-game"] = true
		case 18:
			name = "PlayerAllin"
			ea, eb = mA.PlayerAllin(id, pid), viaEngine(func(te pokertable.TableEngine) error { return te.PlayerAllin(pid) })
			groups["player-game"] = true
		case 19:
			name = "PlayerCheck"
			ea, eb = mA.PlayerCheck(id, pid), viaEngine(func(te pokertable.TableEngine) error { return te.PlayerCheck(pid) })
			groups["player-game"] = true
		case 20:
			name = "PlayerFold"
			ea, eb = mA.PlayerFold(id, pid), viaEngine(func(te pokertable.TableEngine) error { return te.PlayerFold(pid) })
			groups["player-game"] = true
		case 21:
			name = "PlayerPass"
			ea, eb = mA.PlayerPass(id, pid), viaEngine(func(te pokertable.TableEngine) error { return te.PlayerPass(pid) })
			groups["player-game"] = true
		case 22:
			name = "GetTableEngine"
			_, ea = mA.GetTableEngine(id)
			_, eb = mB.GetTableEngine(id)
		case 23:
			name = "Reset"
			if !choose.Chance(c.Ch, "reset", 10) {
				continue
			}
			mA.Reset()
			mB.Reset()
			for _, t := range tables {
				t.closed = true
			}
			labels["reset"] = true
		case 25:
			name = "CreateTableRefused"
			// a creation the engine refuses (two players on one seat / more players than seats),
			// under a fresh id or under the id of a live table: the id must not become known
			// and a live table with that id must not be disturbed
			rid := id
			if kindID != 0 || choose.Chance(c.Ch, "refused.fresh", 50) {
				rid = fmt.Sprintf("R%d", i)
			}
			jps := []pokertable.JoinPlayer{{PlayerID: "x1", RedeemChips: 10, Seat: 0}, {PlayerID: "x2", RedeemChips: 10, Seat: 0}}
			if choose.Chance(c.Ch, "refused.toomany", 40) {
				jps = nil
				for k := 0; k < 4; k++ {
					jps = append(jps, pokertable.JoinPlayer{PlayerID: fmt.Sprintf("y%d", k), RedeemChips: 10, Seat: -1})
				}
			}
			setting := pokertable.TableSetting{TableID: rid, Meta: pokertable.TableMeta{Rule: pokertable.CompetitionRule_Default, Mode: pokertable.CompetitionMode_CT, TableMaxSeatCount: 3, TableMinPlayerCount: 2}, Blind: pokertable.TableBlindState{Level: 1, SB: 1, BB: 2}, JoinPlayers: jps}
			_, ea = mA.CreateTable(nil, nil, setting)
			_, eb = mB.CreateTable(nil, nil, setting)
			if ea == nil {
				c.Failf("C17.invalid-create-accepted", "Manager.CreateTable accepted a setting the engine refuses (%d join players on 3 seats, seats %v)", len(jps), jps)
			}
			known := false
			for _, t := range tables {
				if t.id == rid {
					known = true
				}
			}
			if !known {
				if _, err := mA.GetTableEngine(rid); !errors.Is(err, pokertable.ErrManagerTableNotFound) {
					c.Failf("C17.refused-create-registered", "CreateTable(%s) was refused (%v) but the id is known to the manager afterwards", rid, ea)
				}
				if err := mA.PauseTable(rid); !errors.Is(err, pokertable.ErrManagerTableNotFound) {
					c.Failf("C17.refused-create-registered", "CreateTable(%s) was refused (%v) but PauseTable on that id returns %v", rid, ea, err)
				}
			} else if tb != nil && !tb.closed {
				// the live table must still be the one the manager addresses
				after := snapshotAll(mA)
				if after[rid] != before[rid] {
					c.Failf("C17.refused-create-replaced-live-table", "a refused CreateTable reusing the id of live table %s changed what the manager sees under that id:\nbefore %s\nafter  %s", rid, trunc(before[rid]), trunc(after[rid]))
				}
			}
			labels["refused_create"] = true
			id = rid + "!" // nothing below may treat this as an operation on table `rid`
			notFound = false
			ea, eb = nil, nil
		case 24:
			name = "CreateTable"
			// a new table next to the others must not disturb them
			nid := fmt.Sprintf("X%d", i)
			setting := pokertable.TableSetting{TableID: nid, Meta: pokertable.TableMeta{Rule: pokertable.CompetitionRule_Default, Mode: pokertable.CompetitionMode_CT, TableMaxSeatCount: 9, TableMinPlayerCount: 2}, Blind: pokertable.TableBlindState{Level: 1, SB: 1, BB: 2}}
			_, ea = mA.CreateTable(nil, nil, setting)
			_, eb = mB.CreateTable(nil, nil, setting)
			tables = append(tables, &mtable{id: nid, seats: 9})
			before[nid] = ""
		}
		methods[name] = true
		trace = append(trace, name)
		c.Ch.Note("%s(%s,%s,%d) -> %v | engine: %v", name, id, pid, amount, ea, eb)
		touched[id] = true
		// (4) not found
		if name == "CreateTableRefused" {
			// judged above; every table must be exactly as before
			after := snapshotAll(mA)
			for _, t := range tables {
				if b, ok := before[t.id]; ok && b != "" && after[t.id] != b {
					c.Failf("C17.isolation.CreateTableRefused", "a refused CreateTable changed table %s", t.id)
				}
			}
			continue
		}
		if notFound && name != "CreateTable" && name != "Reset" {
			if !errors.Is(ea, pokertable.ErrManagerTableNotFound) {
				c.Failf("C17.not-found."+name, "%s on table id %q (never created / closed / released) returned %v", name, id, ea)
			}
			if name == "PlayerExtendActionDeadline" && ra != int64(-1) {
				c.Failf("C17.not-found-value", "PlayerExtendActionDeadline on an unknown table returned %v", ra)
			}
		} else if name != "CreateTable" && name != "Reset" {
			// (2) same result as the same-named engine operation
			if !sameErr(ea, eb) {
				c.Failf("C17.result-differs."+name, "%s(%s): manager returned %v, the engine operation %v", name, id, ea, eb)
			}
			if fmt.Sprint(ra) != fmt.Sprint(rb) {
				c.Failf("C17.value-differs."+name, "%s(%s): manager returned %v, the engine operation %v", name, id, ra, rb)
			}
		}
		after := snapshotAll(mA)
		afterB := snapshotAll(mB)
		// the open-game gate is engine state the table JSON does not show: a set-up (also one that
		// names nobody: it withdraws whatever was pending) and a settlement signal must leave
		// the gates of the two twins in the same state
		if name != "Reset" {
			if ga, gb := gateOf(mA, id), gateOf(mB, id); ga != gb {
				c.Failf("C17.effect-differs."+name, "%s on table %s: the open-game gate differs from the twin driven through the engine:\nmanager %s\nengine  %s", name, id, ga, gb)
			}
		}
		for _, t := range tables {
			if name == "Reset" {
				if after[t.id] != "not-found" {
					c.Failf("C17.reset", "after Reset table %s is still registered", t.id)
				}
				continue
			}
			if t.id != id {
				// (3) isolation: every other table is untouched (all are idle: no hand ever starts here)
				if b, ok := before[t.id]; ok && b != "" && after[t.id] != b {
					if name != "PlayerJoin" && maskSeatedIn(after[t.id]) == maskSeatedIn(b) {
						labels["auto_join_callback_landed_late"] = true
						continue
					}
					c.Failf("C17.isolation."+name, "%s on table %s changed table %s:\nbefore %s\nafter  %s", name, id, t.id, trunc(b), trunc(after[t.id]))
				}
				continue
			}
			// (2) same effect as the engine operation
			if name != "PlayerJoin" && after[t.id] != afterB[t.id] && maskSeatedIn(after[t.id]) == maskSeatedIn(afterB[t.id]) {
				// realign the twins: seat in, on both, whoever is seated in on one of them
				labels["auto_join_callback_landed_late"] = true
				ta, errA := mA.GetTableEngine(t.id)
				tb2, errB := mB.GetTableEngine(t.id)
				if errA == nil && errB == nil {
					for _, p := range ta.GetTable().State.PlayerStates {
						if p.IsIn {
							tb2.PlayerJoin(p.PlayerID)
						}
					}
					for _, p := range tb2.GetTable().State.PlayerStates {
						if p.IsIn {
							ta.PlayerJoin(p.PlayerID)
						}
					}
					time.Sleep(2 * time.Millisecond)
				}
			} else if after[t.id] != afterB[t.id] {
				c.Failf("C17.effect-differs."+name, "%s on table %s: state differs from the twin driven through the engine:\nmanager %s\nengine  %s", name, id, trunc(after[t.id]), trunc(afterB[t.id]))
			}
			if (name == "CloseTable" || name == "ReleaseTable") && ea == nil && after[t.id] != "not-found" {
				c.Failf("C17.still-registered."+name, "after %s table %s is still found", name, id)
			}
		}
	}
	ms := []string{}
	for m := range methods {
		labels["m:"+m] = true
		ms = append(ms, m)
	}
	sort.Strings(ms)
	nt := len(touched) >= 2 && groups["table"] && groups["player-table"] && groups["player-game"]
	c.St.Case(keys(labels), nt, strings.Join(trace, ","), func() interface{} {
		ops := c.Ch.Notes
		if len(ops) > 30 {
			ops = ops[:30]
		}
		return ops
	})
}

func TestC17(t *testing.T) {
	run.Property(t, "C17", "c17", c17Stats, run.Scale(20, 200), c17Body)
}
