package actor

import (
	"fmt"
	"sync"
	"testing"
	"time"

	"github.com/weedbox/pokerface"
	"github.com/weedbox/pokertable"
	pactor "github.com/weedbox/pokertable/actor"

	"verif/harness/run"
	"verif/harness/sim"
)

func TestMain(m *testing.M) { run.Main(m) }

// call is one adapter call made by a runner.
type call struct {
	Kind   string
	Player string
	Arg    int64
	At     time.Time
}

// recAdapter is a recording actor.Adapter: it holds the table it was given (as the
// real adapter does) and logs every action instead of touching an engine.
type recAdapter struct {
	mu    sync.Mutex
	actor pactor.Actor
	table *pokertable.Table
	calls []call
}

func (a *recAdapter) SetActor(x pactor.Actor) { a.actor = x }
func (a *recAdapter) UpdateTableState(t *pokertable.Table) error {
	c, err := t.Clone()
	if err != nil {
		return err
	}
	a.table = c
	return a.actor.UpdateTableState(c)
}
func (a *recAdapter) GetGamePlayerIndex(id string) int   { return a.table.GamePlayerIndex(id) }
func (a *recAdapter) GetGameState() *pokerface.GameState { return a.table.State.GameState }
func (a *recAdapter) rec(kind, id string, arg int64) error {
	a.mu.Lock()
	a.calls = append(a.calls, call{kind, id, arg, time.Now()})
	a.mu.Unlock()
	return nil
}
func (a *recAdapter) Calls() []call {
	a.mu.Lock()
	defer a.mu.Unlock()
	return append([]call(nil), a.calls...)
}
func (a *recAdapter) Pass(id string) error                        { return a.rec("pass", id, 0) }
func (a *recAdapter) Ready(id string) error                       { return a.rec("ready", id, 0) }
func (a *recAdapter) Pay(id string, c int64) error                { return a.rec("pay", id, c) }
func (a *recAdapter) Check(id string) error                       { return a.rec("check", id, 0) }
func (a *recAdapter) Bet(id string, c int64) error                { return a.rec("bet", id, c) }
func (a *recAdapter) Call(id string) error                        { return a.rec("call", id, 0) }
func (a *recAdapter) Fold(id string) error                        { return a.rec("fold", id, 0) }
func (a *recAdapter) Allin(id string) error                       { return a.rec("allin", id, 0) }
func (a *recAdapter) Raise(id string, c int64) error              { return a.rec("raise", id, c) }
func (a *recAdapter) ExtendTime(id string, d time.Duration) error { return nil }

// handState is one real snapshot taken at a decision point of a real table.
type handState struct {
	Table *pokertable.Table
	Kind  string // ready ante blinds turn
	M     []string
	Cur   int
	Desc  string
}

// collectStates plays generated hands on a real engine and returns the
// snapshots published at decision points (exactly what the engine emits).
func collectStates(c *run.Ctx, o sim.GenOpts, hands int, onState func(s *sim.Sim, st handState)) *sim.Sim {
	cfg := sim.GenConfig(c.Ch, o)
	var hooks sim.Hooks
	hooks.AtDecision = func(s *sim.Sim, d *sim.Decision) {
		onState(s, handState{Table: d.Table, Kind: d.Kind, M: d.M, Cur: d.Cur, Desc: fmt.Sprintf("hand %d %s %s", s.Cur.N, d.Round, d.Kind)})
	}
	s := sim.New(c.Ch, cfg, hooks)
	c.Defer(s.Finish)
	if s.CreateErr != nil || len(sim.LivePlayers(s.Now())) < 2 {
		return s
	}
	if !s.StartFirst(nil) {
		return s
	}
	for n := 0; n < hands; n++ {
		if s.GateArmed == nil {
			break
		}
		if len(s.GateArmed.Participants) <= 1 {
			break
		}
		h := s.PlayHand(s.PlanSignals(0))
		if s.Stall != "" || h.Outcome != "gate" {
			break
		}
	}
	return s
}

func cloneT(t *pokertable.Table) *pokertable.Table {
	c, _ := t.Clone()
	return c
}
