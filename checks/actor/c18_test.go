package actor

import (
	"fmt"
	"runtime/debug"
	"strings"
	"sync"
	"testing"
	"time"

	"github.com/weedbox/pokerface"
	"github.com/weedbox/pokertable"
	pactor "github.com/weedbox/pokertable/actor"
	ogm "github.com/weedbox/pokertable/open_game_manager"

	"verif/harness/backend"
	"verif/harness/choose"
	"verif/harness/ev"
	"verif/harness/run"
	"verif/harness/sim"
)

var c18Stats = ev.New("C18", "c18")

func newBot(id string) (*recAdapter, pactor.Actor) {
	a := pactor.NewActor()
	ad := &recAdapter{}
	a.SetAdapter(ad)
	bot := pactor.NewBotRunner(id)
	a.SetRunner(bot)
	return ad, a
}

func has(ss []string, x string) bool {
	for _, s := range ss {
		if s == x {
			return true
		}
	}
	return false
}

// judgeBotCall validates one bot call against the real hand state.
func judgeBotCall(st handState, gi int, cl call) (string, string) {
	gs := st.Table.State.GameState
	p := gs.GetPlayer(gi)
	if !has(p.AllowedActions, cl.Kind) {
		return "C18.not-allowed." + cl.Kind, fmt.Sprintf("bot chose %s(%d); allowed: %v", cl.Kind, cl.Arg, p.AllowedActions)
	}
	switch cl.Kind {
	case "ready":
		return "", ""
	case "pay":
		want := int64(-1)
		switch gs.Status.CurrentEvent {
		case "AnteRequested":
			want = gs.Meta.Ante
		case "BlindsRequested":
			switch {
			case gs.HasPosition(gi, "sb") && gs.Meta.Blind.SB > 0:
				want = gs.Meta.Blind.SB
			case gs.HasPosition(gi, "bb") && gs.Meta.Blind.BB > 0:
				want = gs.Meta.Blind.BB
			case gs.HasPosition(gi, "bb"):
				want = gs.Meta.Blind.BB
			case gs.HasPosition(gi, "sb"):
				want = gs.Meta.Blind.SB
			default:
				want = gs.Meta.Blind.Dealer
			}
		}
		if cl.Arg != want {
			return "C18.pay-size", fmt.Sprintf("bot paid %d at %s, mandatory payment of its position %v is %d (blinds %+v ante %d)", cl.Arg, gs.Status.CurrentEvent, p.Positions, want, gs.Meta.Blind, gs.Meta.Ante)
		}
		return "", ""
	}
	// wager actions and pass: the real hand engine must accept it for the player whose turn it is
	if gs.Status.CurrentPlayer != gi {
		return "C18.not-its-turn", fmt.Sprintf("bot acted %s while the turn is game index %d", cl.Kind, gs.Status.CurrentPlayer)
	}
	nb := pokertable.NewNativeGameBackend()
	in := backend.CloneState(gs)
	var err error
	switch cl.Kind {
	case "pass":
		_, err = nb.Pass(in)
	case "fold":
		_, err = nb.Fold(in)
	case "check":
		_, err = nb.Check(in)
	case "call":
		_, err = nb.Call(in)
	case "allin":
		_, err = nb.Allin(in)
	case "bet":
		_, err = nb.Bet(in, cl.Arg)
	case "raise":
		_, err = nb.Raise(in, cl.Arg)
	}
	if err != nil {
		return "C18.engine-rejects." + cl.Kind, fmt.Sprintf("the hand engine rejects the bot's %s(%d): %v", cl.Kind, cl.Arg, err)
	}
	stack := p.InitialStackSize
	switch cl.Kind {
	case "bet":
		lo := gs.Status.MiniBet
		if stack < lo {
			lo = stack
		}
		if cl.Arg < lo || cl.Arg > stack {
			return "C18.bet-size", fmt.Sprintf("bot bet %d, legal range [%d, %d] (minimum bet %d, stack %d)", cl.Arg, lo, stack, gs.Status.MiniBet, stack)
		}
	case "raise":
		minLevel := gs.Status.CurrentWager + gs.Status.PreviousRaiseSize
		if cl.Arg <= gs.Status.CurrentWager || cl.Arg > stack {
			return "C18.raise-size", fmt.Sprintf("bot raised to %d, current wager %d, stack %d", cl.Arg, gs.Status.CurrentWager, stack)
		}
		if cl.Arg != stack && cl.Arg < minLevel {
			return "C18.raise-below-minimum", fmt.Sprintf("bot raised to %d, minimum raise level %d (wager %d + previous raise %d), stack %d", cl.Arg, minLevel, gs.Status.CurrentWager, gs.Status.PreviousRaiseSize, stack)
		}
	}
	return "", ""
}

// feed shows a table to a runner through its adapter; a panic inside the runner is
// returned (with its stack) instead of killing the process.
func feed(f func()) (pan string) {
	defer func() {
		if r := recover(); r != nil {
			st := strings.Split(string(debug.Stack()), "\n")
			keep := []string{}
			for _, l := range st {
				if strings.Contains(l, "pokertable/actor") {
					keep = append(keep, strings.TrimSpace(l))
				}
			}
			pan = fmt.Sprintf("%v [%s]", r, strings.Join(keep, " <- "))
		}
	}()
	f()
	return ""
}

func c18Body(c *run.Ctx) {
	K := run.Scale(6, 20)
	nontrivial := false
	labels := map[string]bool{}
	states := 0
	var prev, last *pokertable.Table // previous decision-point snapshot (while this one is presented) / the one before
	onState := func(s *sim.Sim, st handState) {
		states++
		gs := st.Table.State.GameState
		prev, last = last, st.Table
		// everybody at the table plus a stranger is shown the snapshot
		ids := sim.AllPlayers(st.Table)
		ids = append(ids, "stranger")
		for _, id := range ids {
			gi := -1
			for i, m := range st.M {
				if m == id {
					gi = i
				}
			}
			asked := false
			var p *pokerface.PlayerState
			if gi >= 0 {
				p = gs.GetPlayer(gi)
				asked = p != nil && len(p.AllowedActions) > 0
				if asked && st.Table.State.Status != pokertable.TableStateStatus_TableGamePlaying {
					// the engine occasionally publishes the first request of a hand before it has
					// switched the status to playing; it would refuse any move then: silence is right
					asked = false
					labels["request_published_before_playing"] = true
				}
			}
			if asked {
				if p.InitialStackSize <= gs.Status.MiniBet {
					labels["stack_le_minbet"] = true
					nontrivial = true
				}
				if p.StackSize == 1 || p.Bankroll == 1 {
					labels["one_chip"] = true
				}
				if len(p.AllowedActions) == 2 && has(p.AllowedActions, "allin") && has(p.AllowedActions, "fold") {
					labels["only_allin_fold"] = true
					nontrivial = true
				}
				for _, q := range gs.Players {
					if q.Idx != gi && q.DidAction == "allin" && st.Kind == "turn" {
						labels["facing_allin"] = true
						nontrivial = true
					}
				}
			}
			reps := 1
			if asked {
				reps = K
			}
			for k := 0; k < reps; k++ {
				ad, a := newBot(id)
				view := cloneT(st.Table)
				if k%3 == 2 && view.State.BlindState != nil {
					// the blind level was raised after this hand opened: the hand keeps its own amounts
					b := view.State.BlindState
					b.Level, b.Ante, b.Dealer, b.SB, b.BB = b.Level+1, b.Ante+7, b.Dealer+3, 2*b.SB+1, 2*b.BB+1
					if has(p.AllowedActions, "pay") {
						labels["pay_with_table_level_raised_during_hand"] = true
					}
				}
				if pan := feed(func() { ad.UpdateTableState(view) }); pan != "" {
					c.Failf("C18.bot-panicked", "%s: bot %s (game index %d, allowed %v, stack %d of %d, wager %d, current wager %d, previous raise %d) panicked instead of moving: %s", st.Desc, id, gi, p.AllowedActions, p.StackSize, p.InitialStackSize, p.Wager, gs.Status.CurrentWager, gs.Status.PreviousRaiseSize, pan)
				}
				calls := ad.Calls()
				if !asked {
					if len(calls) != 0 {
						c.Failf("C18.acted-when-not-asked", "%s: bot %s (game index %d) is not asked but called %+v", st.Desc, id, gi, calls)
					}
					labels["not_asked"] = true
					continue
				}
				if len(calls) != 1 {
					c.Failf("C18.not-exactly-one", "%s: bot %s asked with %v made %d calls: %+v", st.Desc, id, p.AllowedActions, len(calls), calls)
				}
				cl := calls[0]
				if cl.Player != id {
					c.Failf("C18.wrong-player", "%s: bot %s acted for %s", st.Desc, id, cl.Player)
				}
				if sig, msg := judgeBotCall(st, gi, cl); sig != "" {
					c.Failf(sig, "%s: bot %s (stack %d, wager %d): %s", st.Desc, id, p.InitialStackSize, p.Wager, msg)
				}
				labels["chose_"+cl.Kind] = true
				// stale views: the same snapshot again, and an older one of the same hand
				if k == 0 {
					if pan := feed(func() { ad.UpdateTableState(cloneT(st.Table)) }); pan != "" {
						c.Failf("C18.bot-panicked", "%s: bot %s panicked on a repeated snapshot: %s", st.Desc, id, pan)
					}
					older := cloneT(st.Table)
					older.State.GameState.UpdatedAt--
					if pan := feed(func() { ad.UpdateTableState(older) }); pan != "" {
						c.Failf("C18.bot-panicked", "%s: bot %s panicked on an older snapshot: %s", st.Desc, id, pan)
					}
					if n := len(ad.Calls()); n != 1 {
						c.Failf("C18.acted-on-stale-view", "%s: bot %s acted again on a stale view (%d calls)", st.Desc, id, n)
					}
					labels["stale_view"] = true
					// a bot that has followed the hand: an earlier snapshot of the same hand first,
					// then this one (exactly one more action), then both again (silence)
					if prev != nil && prev.State.GameState != nil && prev.State.GameState.GameID == gs.GameID && prev.State.GameState.UpdatedAt < gs.UpdatedAt {
						ad2, _ := newBot(id)
						if pan := feed(func() { ad2.UpdateTableState(cloneT(prev)) }); pan != "" {
							c.Failf("C18.bot-panicked", "%s: bot %s panicked on the previous snapshot: %s", st.Desc, id, pan)
						}
						n0 := len(ad2.Calls())
						feed(func() { ad2.UpdateTableState(cloneT(st.Table)) })
						n1 := len(ad2.Calls())
						feed(func() { ad2.UpdateTableState(cloneT(st.Table)) })
						feed(func() { ad2.UpdateTableState(cloneT(prev)) })
						n2 := len(ad2.Calls())
						if n1 != n0+1 || n2 != n1 {
							c.Failf("C18.acted-on-stale-view", "%s: bot %s was shown the hand's previous snapshot (%d calls), this one (%d calls), then both again (%d calls): expected exactly one action for this request and silence on the repeats; calls %+v", st.Desc, id, n0, n1, n2, ad2.Calls())
						}
						labels["stale_view_after_following_the_hand"] = true
					}
				}
				_ = a
			}
		}
	}
	s := collectStates(c, sim.GenOpts{ShortStacks: 50, SitOutPct: 15, AnteePct: 45, DealerBlindPct: 15, NoSBPct: 10, MaxPlayers: 8, Rules: []int{4, 1}}, c.Ch.Int("hands", 1, 4), onState)
	for l := range s.LabelSet {
		labels[l] = true
	}
	ls := []string{}
	for l := range labels {
		ls = append(ls, l)
	}
	c.St.Add("states_presented", int64(states))
	c.St.Case(ls, nontrivial, fmt.Sprintf("%v", s.Ch.Notes), func() interface{} {
		n := s.Ch.Notes
		if len(n) > 25 {
			n = n[:25]
		}
		return map[string]interface{}{"states": states, "K": K, "ops": n}
	})
}

func TestC18(t *testing.T) {
	run.Property(t, "C18", "c18", c18Stats, run.Scale(10, 100), c18Body)
}

// ---------------------------------------------------------------------------
// table level: tables played entirely by bots through the real adapter; no move
// is rejected by the engine and every opened hand settles.

var c18tStats = ev.New("C18", "c18t")

// watchAdapter forwards to the real table-engine adapter and records rejections.
type watchAdapter struct {
	pactor.Adapter
	mu       sync.Mutex
	rejected []string
	moves    map[string]int
}

func (w *watchAdapter) note(kind, id string, arg int64, err error) error {
	w.mu.Lock()
	w.moves[kind]++
	if err != nil {
		w.rejected = append(w.rejected, fmt.Sprintf("%s(%d) by %s: %v", kind, arg, id, err))
	}
	w.mu.Unlock()
	return err
}
func (w *watchAdapter) Pass(id string) error  { return w.note("pass", id, 0, w.Adapter.Pass(id)) }
func (w *watchAdapter) Ready(id string) error { return w.note("ready", id, 0, w.Adapter.Ready(id)) }
func (w *watchAdapter) Pay(id string, c int64) error {
	return w.note("pay", id, c, w.Adapter.Pay(id, c))
}
func (w *watchAdapter) Check(id string) error { return w.note("check", id, 0, w.Adapter.Check(id)) }
func (w *watchAdapter) Bet(id string, c int64) error {
	return w.note("bet", id, c, w.Adapter.Bet(id, c))
}
func (w *watchAdapter) Call(id string) error  { return w.note("call", id, 0, w.Adapter.Call(id)) }
func (w *watchAdapter) Fold(id string) error  { return w.note("fold", id, 0, w.Adapter.Fold(id)) }
func (w *watchAdapter) Allin(id string) error { return w.note("allin", id, 0, w.Adapter.Allin(id)) }
func (w *watchAdapter) Raise(id string, c int64) error {
	return w.note("raise", id, c, w.Adapter.Raise(id, c))
}

type botTableResult struct {
	sig, msg string
	hands    int
	allin    bool
	moves    map[string]int
	desc     string
}

func runBotTable(seed uint64) botTableResult {
	var res botTableResult
	r := choose.NewSplitMix(seed)
	seats := 2 + r.Intn(9)
	n := 2 + r.Intn(seats-1)
	if n > 7 {
		n = 7
	}
	bb := int64(2 * (1 + r.Intn(20)))
	setting := pokertable.TableSetting{TableID: fmt.Sprintf("bt%d", seed), Meta: pokertable.TableMeta{CompetitionID: "c", Rule: pokertable.CompetitionRule_Default, Mode: pokertable.CompetitionMode_CT, MaxDuration: 100000000, TableMaxSeatCount: seats, TableMinPlayerCount: 2, ActionTime: 0},
		Blind: pokertable.TableBlindState{Level: 1, SB: bb / 2, BB: bb}}
	if r.Intn(3) == 0 {
		setting.Blind.Ante = 1 + int64(r.Intn(int(bb)))
	}
	te := pokertable.NewTableEngine(&pokertable.TableEngineOptions{GameContinueInterval: 0, OpenGameTimeout: 2}, pokertable.WithGameBackend(pokertable.NewNativeGameBackend()))
	var mu sync.Mutex
	var watchers []*watchAdapter
	var actors []pactor.Actor
	settled, opened := 0, 0
	panicked := ""
	done := make(chan string, 4)
	maxHands := 1 + r.Intn(8)
	finished := false
	lastProgress := time.Now()
	te.OnTableUpdated(func(t *pokertable.Table) {
		mu.Lock()
		if finished {
			mu.Unlock()
			return
		}
		lastProgress = time.Now()
		as := append([]pactor.Actor(nil), actors...)
		mu.Unlock()
		for _, a := range as {
			a := a
			if pan := feed(func() { a.GetTable().UpdateTableState(t) }); pan != "" {
				mu.Lock()
				if panicked == "" {
					panicked = pan
				}
				mu.Unlock()
				select {
				case done <- "panic":
				default:
				}
			}
		}
	})
	te.OnTableStateUpdated(func(name string, t *pokertable.Table) {
		mu.Lock()
		defer mu.Unlock()
		if finished {
			return
		}
		switch {
		case name == pokertable.TableStateEvent_GameSettled:
			settled++
		case name == pokertable.TableStateEvent_StatusUpdated && t.State.Status == pokertable.TableStateStatus_TablePausing:
			select {
			case done <- "paused":
			default:
			}
		}
	})
	te.OnReadyOpenFirstTableGame(func(cid, tid string, gc int, ps []*pokertable.TablePlayerState) {
		m := map[string]int{}
		for i, p := range ps {
			m[p.PlayerID] = i
		}
		go func() {
			te.SetUpTableGame(gc+1, m)
		}()
	})
	if _, err := te.CreateTable(setting); err != nil {
		res.sig, res.msg = "harness.create", err.Error()
		return res
	}
	// gate decorator: deliver the settlement-finish signals once the set-up is complete
	gate := &gateFence{inner: pokertable.VerifOpenGameManager(te)}
	gate.onSet = func(gc int, parts map[string]int) {
		mu.Lock()
		stop := finished || settled >= maxHands
		mu.Unlock()
		if stop {
			select {
			case done <- "enough":
			default:
			}
			return
		}
		go func() {
			for id := range parts {
				te.PlayerSettlementFinish(id)
			}
		}()
	}
	pokertable.VerifSetOpenGameManager(te, gate)
	for i := 0; i < n; i++ {
		id := fmt.Sprintf("b%d", i)
		stack := bb + int64(r.Intn(int(40*bb)))
		if r.Intn(3) == 0 {
			stack = 1 + int64(r.Intn(int(2*bb)))
		}
		if err := te.PlayerReserve(pokertable.JoinPlayer{PlayerID: id, RedeemChips: stack, Seat: -1}); err != nil {
			res.sig, res.msg = "harness.reserve", err.Error()
			return res
		}
		res.desc += fmt.Sprintf("%s:%d ", id, stack)
		a := pactor.NewActor()
		w := &watchAdapter{Adapter: pactor.NewTableEngineAdapter(te, te.GetTable()), moves: map[string]int{}}
		a.SetAdapter(w)
		a.SetRunner(pactor.NewBotRunner(id))
		mu.Lock()
		watchers = append(watchers, w)
		actors = append(actors, a)
		mu.Unlock()
	}
	for i := 0; i < n; i++ {
		te.PlayerJoin(fmt.Sprintf("b%d", i))
		time.Sleep(300 * time.Microsecond)
	}
	te.StartTableGame()
	// progress-based: the engine's own response timeout (17 s) is a legitimate wait (it
	// occasionally publishes a hand's first request before switching to playing, and bots
	// rightly stay silent then)
	var why string
	for why == "" {
		select {
		case why = <-done:
		case <-time.After(500 * time.Millisecond):
			mu.Lock()
			idle := time.Since(lastProgress)
			mu.Unlock()
			if idle > 30*time.Second {
				why = "timeout"
			}
		}
	}
	mu.Lock()
	finished = true
	res.hands = settled
	_ = opened
	mu.Unlock()
	func() {
		defer func() { recover() }()
		te.SetUpTableGame(-999, map[string]int{})
	}()
	res.moves = map[string]int{}
	for _, w := range watchers {
		w.mu.Lock()
		for k, v := range w.moves {
			res.moves[k] += v
		}
		if len(w.rejected) > 0 && res.sig == "" {
			res.sig, res.msg = "C18.table-move-rejected", fmt.Sprintf("the engine rejected a bot move: %v (table %s blinds %+v)", w.rejected, res.desc, setting.Blind)
		}
		w.mu.Unlock()
	}
	mu.Lock()
	if panicked != "" {
		res.sig, res.msg = "C18.bot-panicked", fmt.Sprintf("a bot panicked instead of moving: %s (table %s blinds %+v)", panicked, res.desc, setting.Blind)
	}
	mu.Unlock()
	if why == "timeout" && res.sig == "" {
		st := te.GetTable().State
		ev := ""
		if st.GameState != nil {
			ev = st.GameState.Status.CurrentEvent
		}
		res.sig, res.msg = "C18.bot-table-stuck", fmt.Sprintf("a table played entirely by bots made no progress for 30 s after %d settled hands (status %s, hand event %s; table %s blinds %+v)", settled, st.Status, ev, res.desc, setting.Blind)
	}
	res.allin = res.moves["allin"] > 0
	return res
}

// gateFence is the same decorator as the Sim's (signals after the set-up returned).
type gateFence struct {
	inner ogm.OpenGameManager
	onSet func(int, map[string]int)
}

func (g *gateFence) Ready(id string) error { return g.inner.Ready(id) }
func (g *gateFence) Setup(gc int, p map[string]int) {
	g.inner.Setup(gc, p)
	cp := map[string]int{}
	for k, v := range p {
		cp[k] = v
	}
	if g.onSet != nil {
		g.onSet(gc, cp)
	}
}
func (g *gateFence) GetState() ogm.OpenGameState { return g.inner.GetState() }
func (g *gateFence) PrintState()                 { g.inner.PrintState() }

func TestC18Tables(t *testing.T) {
	defer c18tStats.Write()
	n := run.Scale(48, 1500)
	seed := uint64(run.Seed())*5171 + uint64(run.Shard())*977
	par := 16
	results := make([]botTableResult, n)
	var wg sync.WaitGroup
	sem := make(chan struct{}, par)
	for i := 0; i < n; i++ {
		wg.Add(1)
		sem <- struct{}{}
		go func(i int) {
			defer wg.Done()
			defer func() { <-sem }()
			results[i] = runBotTable(seed + uint64(i))
		}(i)
	}
	wg.Wait()
	for i, r := range results {
		if r.sig != "" {
			c := &run.Ctx{Prop: "C18", Check: "c18t", TB: t, St: c18tStats, Ch: choose.NewRecorder(choose.NewScriptChooser(nil))}
			c.Ch.Note("bot table seed %d: %s", seed+uint64(i), r.desc)
			func() {
				defer func() { recover() }()
				c.Failf(r.sig, "%s", r.msg)
			}()
			continue
		}
		ls := []string{"bot_table", fmt.Sprintf("hands_%d", r.hands)}
		for k := range r.moves {
			ls = append(ls, "table_move_"+k)
		}
		c18tStats.Case(ls, r.allin, fmt.Sprintf("%d:%s:%v", i, r.desc, r.moves), func() interface{} {
			return map[string]interface{}{"players": r.desc, "hands": r.hands, "moves": r.moves}
		})
	}
}
