package actor

import (
	"encoding/json"
	"fmt"
	"reflect"
	"strings"
	"sync"
	"testing"
	"time"

	"github.com/weedbox/pokerface"
	"github.com/weedbox/pokertable"
	pactor "github.com/weedbox/pokertable/actor"

	"verif/harness/choose"
	"verif/harness/ev"
	"verif/harness/run"
	"verif/harness/sim"
)

var c20Stats = ev.New("C20", "c20")

// stubEngine satisfies pokertable.TableEngine for the real table-engine adapter;
// actor moves end here instead of disturbing the table under test.
type stubEngine struct{ pokertable.TableEngine }

func (stubEngine) PlayerReady(string) error        { return nil }
func (stubEngine) PlayerPay(string, int64) error   { return nil }
func (stubEngine) PlayerBet(string, int64) error   { return nil }
func (stubEngine) PlayerRaise(string, int64) error { return nil }
func (stubEngine) PlayerCall(string) error         { return nil }
func (stubEngine) PlayerAllin(string) error        { return nil }
func (stubEngine) PlayerCheck(string) error        { return nil }
func (stubEngine) PlayerFold(string) error         { return nil }
func (stubEngine) PlayerPass(string) error         { return nil }

type received struct {
	kind string // observer | system | player | scribbler
	t    *pokertable.Table
	raw  string // JSON right when it was received
}

// hiddenViolation checks what a non-system observer was shown.
func hiddenViolation(t *pokertable.Table) string {
	gs := t.State.GameState
	if gs == nil {
		return ""
	}
	if len(gs.Meta.Deck) != 0 {
		return fmt.Sprintf("the deck (%d cards) is visible", len(gs.Meta.Deck))
	}
	if len(gs.Status.Burned) != 0 {
		return fmt.Sprintf("burned cards %v are visible", gs.Status.Burned)
	}
	closed := gs.Status.CurrentEvent == "GameClosed"
	for _, p := range gs.Players {
		if closed && !p.Fold {
			continue
		}
		if len(p.HoleCards) != 0 {
			return fmt.Sprintf("hole cards %v of game index %d (folded=%v) are visible", p.HoleCards, p.Idx, p.Fold)
		}
		if p.Combination != nil {
			return fmt.Sprintf("hand strength of game index %d (folded=%v) is visible: %+v", p.Idx, p.Fold, *p.Combination)
		}
	}
	return ""
}

// deepScribble overwrites everything reachable from v through exported fields: numbers,
// strings and booleans in place, slice elements and map values in place (maps also get
// keys rewritten where the value type allows it). Whatever the engine shares with this
// value - at any depth - is changed with it.
func deepScribble(v reflect.Value, depth int) {
	if depth > 12 {
		return
	}
	switch v.Kind() {
	case reflect.Ptr, reflect.Interface:
		if !v.IsNil() {
			deepScribble(v.Elem(), depth+1)
		}
	case reflect.Struct:
		for i := 0; i < v.NumField(); i++ {
			if v.Type().Field(i).PkgPath == "" { // exported
				deepScribble(v.Field(i), depth+1)
			}
		}
	case reflect.Slice, reflect.Array:
		for i := 0; i < v.Len(); i++ {
			deepScribble(v.Index(i), depth+1)
		}
	case reflect.Map:
		for _, k := range v.MapKeys() {
			e := v.MapIndex(k)
			switch e.Kind() {
			case reflect.Ptr, reflect.Map, reflect.Slice, reflect.Interface:
				deepScribble(e, depth+1)
			default:
				n := reflect.New(e.Type()).Elem()
				n.Set(e)
				deepScribble(n, depth+1)
				v.SetMapIndex(k, n)
			}
		}
	case reflect.Int, reflect.Int8, reflect.Int16, reflect.Int32, reflect.Int64:
		if v.CanSet() {
			v.SetInt(-7777)
		}
	case reflect.Uint, reflect.Uint8, reflect.Uint16, reflect.Uint32, reflect.Uint64:
		if v.CanSet() {
			v.SetUint(7777)
		}
	case reflect.Float32, reflect.Float64:
		if v.CanSet() {
			v.SetFloat(-7.5)
		}
	case reflect.String:
		if v.CanSet() {
			v.SetString("scribbled")
		}
	case reflect.Bool:
		if v.CanSet() {
			v.SetBool(!v.Bool())
		}
	}
}

// reachable collects the addresses of every pointer target, map and non-empty slice backing
// array reachable from v through exported fields, with the path that leads there.
func reachable(v reflect.Value, path string, out map[uintptr]string, depth int) {
	if depth > 12 {
		return
	}
	switch v.Kind() {
	case reflect.Ptr:
		if !v.IsNil() {
			out[v.Pointer()] = path
			reachable(v.Elem(), path, out, depth+1)
		}
	case reflect.Interface:
		if !v.IsNil() {
			reachable(v.Elem(), path, out, depth+1)
		}
	case reflect.Struct:
		for i := 0; i < v.NumField(); i++ {
			if v.Type().Field(i).PkgPath == "" {
				reachable(v.Field(i), path+"."+v.Type().Field(i).Name, out, depth+1)
			}
		}
	case reflect.Slice:
		if v.Len() > 0 {
			out[v.Pointer()] = path + "[]"
		}
		for i := 0; i < v.Len(); i++ {
			reachable(v.Index(i), fmt.Sprintf("%s[%d]", path, i), out, depth+1)
		}
	case reflect.Map:
		if !v.IsNil() {
			out[v.Pointer()] = path + "{}"
			for _, k := range v.MapKeys() {
				reachable(v.MapIndex(k), fmt.Sprintf("%s{%v}", path, k), out, depth+1)
			}
		}
	}
}

// sharedWith names a piece of structure that both values can reach ("" = disjoint).
func sharedWith(a, b interface{}) string {
	ra, rb := map[uintptr]string{}, map[uintptr]string{}
	reachable(reflect.ValueOf(a), "", ra, 0)
	reachable(reflect.ValueOf(b), "", rb, 0)
	for p, where := range ra {
		if w2, ok := rb[p]; ok {
			return where + " == " + w2
		}
	}
	return ""
}

func scribble(t *pokertable.Table) {
	defer deepScribble(reflect.ValueOf(t), 0)
	t.ID = "scribbled"
	t.State.Status = "scribbled"
	t.State.GameCount = -77
	for _, p := range t.State.PlayerStates {
		p.Bankroll = -1
		p.PlayerID = "x"
		p.Positions = append(p.Positions, "scribbled")
	}
	for i := range t.State.SeatMap {
		t.State.SeatMap[i] = 99
	}
	if gs := t.State.GameState; gs != nil {
		gs.GameID = "scribbled"
		gs.Meta.Deck = []string{"XX"}
		gs.Status.Board = append(gs.Status.Board, "XX")
		for _, p := range gs.Players {
			p.HoleCards = []string{"XX", "YY"}
			p.Combination = &pokerface.CombinationInfo{Type: "scribbled"}
			p.StackSize = -5
		}
	}
}

func c20Body(c *run.Ctx) {
	nontrivial := false
	labels := map[string]bool{}
	// a drawn set of actors attached in a drawn order
	// "toggler": an observer that starts in system mode and is switched to plain mode at a
	// drawn snapshot (possibly in the middle of a hand); from then on it is judged as a plain
	// observer. The snapshot numbers are drawn here, on the test goroutine.
	kinds := []string{"observer", "system", "player", "scribbler", "observer", "toggler"}
	toggleAt := c.Ch.Int("toggle.at", 1, 14)
	// a plain observer attached late, at a drawn snapshot (possibly while a hand runs), with
	// an adapter built from the engine's live table as a real caller would
	lateAt := c.Ch.Int("late.at", 2, 18)
	n := c.Ch.Int("actors", 1, 6)
	perm := choose.Perm(c.Ch, "actor.order", len(kinds))
	order := []string{}
	for i := 0; i < n; i++ {
		order = append(order, kinds[perm[i]])
	}
	if !contains(order, "observer") {
		order = append(order, "observer")
	}
	labels[fmt.Sprintf("actors_%d", len(order))] = true
	var mu sync.Mutex
	var viol []string
	var violSig string
	report := func(sig, msg string) {
		mu.Lock()
		if violSig == "" {
			violSig, viol = sig, []string{msg}
		}
		mu.Unlock()
	}
	type att struct {
		kind    string
		adapter pactor.Adapter
		got     *received
		sw      interface{ EnabledSystemMode(bool) }
	}
	var atts []*att
	var engine pokertable.TableEngine // the real engine: the adapters' reads go to it, their actions are stubbed
	engineOf := func() pokertable.TableEngine { return engine }
	playerID := ""
	build := func(first *pokertable.Table) {
		for _, k := range order {
			a := pactor.NewActor()
			ad := pactor.NewTableEngineAdapter(stubEngine{engineOf()}, first)
			a.SetAdapter(ad)
			x := &att{kind: k, adapter: ad}
			switch k {
			case "observer", "system", "scribbler", "toggler":
				ob := pactor.NewObserverRunner()
				if k != "observer" {
					ob.EnabledSystemMode(true)
				}
				x.sw = ob
				kk := k
				ob.OnTableStateUpdated(func(t *pokertable.Table) {
					b, _ := json.Marshal(t)
					x.got = &received{kind: kk, t: t, raw: string(b)}
					if kk == "scribbler" {
						scribble(t)
					}
				})
				a.SetRunner(ob)
			case "player":
				pr := pactor.NewPlayerRunner(playerID)
				pr.Suspend() // acts at once (on the stub), and masks its own copy with AsPlayer
				pr.OnTableStateUpdated(func(t *pokertable.Table) {
					b, _ := json.Marshal(t)
					x.got = &received{kind: "player", t: t, raw: string(b)}
				})
				a.SetRunner(pr)
			}
			atts = append(atts, x)
		}
	}
	snapshots := 0
	var prevLive *pokertable.Table // private copy of the previous publication
	fan := func(s *sim.Sim, name string, live, clone *pokertable.Table) {
		engine = s.TE
		if len(atts) == 0 {
			build(live)
		}
		snapshots++
		if snapshots == lateAt {
			a := pactor.NewActor()
			ad := pactor.NewTableEngineAdapter(stubEngine{engineOf()}, live)
			a.SetAdapter(ad)
			x := &att{kind: "observer", adapter: ad}
			ob := pactor.NewObserverRunner()
			ob.OnTableStateUpdated(func(t *pokertable.Table) {
				b, _ := json.Marshal(t)
				x.got = &received{kind: "observer", t: t, raw: string(b)}
			})
			a.SetRunner(ob)
			x.sw = ob
			atts = append(atts, x)
			if live.State.GameState != nil {
				labels["observer_attached_during_hand"] = true
			}
		}
		if snapshots == toggleAt {
			for _, x := range atts {
				if x.kind == "toggler" {
					x.sw.EnabledSystemMode(false)
					x.kind = "observer"
					if live.State.GameState != nil {
						labels["system_mode_switched_off_mid_hand"] = true
					} else {
						labels["system_mode_switched_off_between_hands"] = true
					}
				}
			}
		}
		seq0 := s.OpSeq()
		before, _ := json.Marshal(live)
		for _, x := range atts {
			x.got = nil
			x.adapter.UpdateTableState(live)
		}
		after, _ := json.Marshal(live)
		// the engine itself flips the status opened -> playing on another goroutine while the
		// first snapshot of a hand is being delivered; that is not an effect of the fan-out
		norm := func(b []byte) string {
			return strings.Replace(strings.Replace(string(b), `"status":"table_game_opened"`, `"status":"-"`, 1), `"status":"table_game_playing"`, `"status":"-"`, 1)
		}
		if seq0%2 == 1 || s.OpSeq() != seq0 {
			// the harness itself was inside a table operation (an unlocked one such as an add-on
			// changes the live table at once): the comparison would blame the fan-out for it
			labels["fanout_overlapped_harness_operation"] = true
		} else if norm(before) != norm(after) {
			report("C20.engine-table-changed", fmt.Sprintf("fan-out to %v changed the engine's table (event %s, status %s)", order, name, live.State.Status))
			return
		}
		gs := live.State.GameState
		for i, x := range atts {
			if x.got == nil {
				continue
			}
			if x.got.t == live || (gs != nil && x.got.t.State.GameState == gs) || x.got.t.State == live.State {
				report("C20.shared-with-engine", fmt.Sprintf("actor %d (%s) received the engine's own table structure", i, x.kind))
				return
			}
			if w := sharedWith(x.got.t, live); w != "" {
				report("C20.shared-with-engine", fmt.Sprintf("actor %d (%s) and the engine's table reach the same structure: %s", i, x.kind, w))
				return
			}
			for j, y := range atts {
				if j <= i || y.got == nil {
					continue
				}
				if x.got.t == y.got.t || x.got.t.State == y.got.t.State || (x.got.t.State.GameState != nil && x.got.t.State.GameState == y.got.t.State.GameState) {
					report("C20.shared-between-actors", fmt.Sprintf("actors %d (%s) and %d (%s) received the same table structure", i, x.kind, j, y.kind))
					return
				}
				if w := sharedWith(x.got.t, y.got.t); w != "" {
					report("C20.shared-between-actors", fmt.Sprintf("actors %d (%s) and %d (%s) reach the same structure: %s", i, x.kind, j, y.kind, w))
					return
				}
			}
			// what the adapter itself hands out (GetGameState) is the actor's copy as well
			if ags := x.adapter.GetGameState(); ags != nil {
				var egs *pokerface.GameState
				if g := s.TE.GetGame(); g != nil {
					egs = g.GetGameState()
				}
				if ags == gs || ags == egs {
					report("C20.shared-with-engine", fmt.Sprintf("the adapter of actor %d (%s) hands out the engine's own hand state object", i, x.kind))
					return
				}
				if x.kind == "observer" {
					tmp := &pokertable.Table{State: &pokertable.TableState{Status: live.State.Status, GameState: ags}}
					if v := hiddenViolation(tmp); v != "" {
						report("C20.leak."+string(live.State.Status), fmt.Sprintf("non-system observer, through its adapter's GetGameState: %s; status %s", v, live.State.Status))
						return
					}
				}
			}
			switch x.kind {
			case "observer":
				var t pokertable.Table
				json.Unmarshal([]byte(x.got.raw), &t)
				if v := hiddenViolation(&t); v != "" {
					sig := "C20.leak." + string(live.State.Status)
					report(sig, fmt.Sprintf("non-system observer (actors %v): %s; status %s, event %s %s", order, v, live.State.Status, name, eventOf(live)))
					return
				}
				// what it was shown must still be what it holds, unless the observer itself changed it
				now, _ := json.Marshal(x.got.t)
				if string(now) != x.got.raw {
					report("C20.changed-by-other-actor", fmt.Sprintf("the observer's copy changed after another actor (%v) handled its own", order))
					return
				}
			case "system":
				// a system-mode observer sees the unmasked state
				if norm([]byte(x.got.raw)) != norm(before) {
					report("C20.system-not-unmasked", fmt.Sprintf("system-mode observer did not receive the unmasked table (status %s)", live.State.Status))
					return
				}
				now, _ := json.Marshal(x.got.t)
				if string(now) != x.got.raw {
					report("C20.changed-by-other-actor", fmt.Sprintf("the system observer's copy changed after another actor (%v) handled its own", order))
					return
				}
			}
		}
		// a snapshot that arrives late: the previous publication of the same hand is delivered
		// once more after the newer one (an asynchronous transport, a resync). Whatever an actor
		// does with it, a plain observer must not get to see hidden cards, neither in what its
		// runner is handed nor behind its adapter's accessor. The current snapshot follows again.
		if gs != nil && prevLive != nil && prevLive.State.GameState != nil && prevLive.State.GameState.GameID == gs.GameID && snapshots%5 == 0 {
			labels["older_snapshot_delivered_late"] = true
			for i, x := range atts {
				if x.kind != "observer" {
					continue
				}
				x.got = nil
				x.adapter.UpdateTableState(prevLive)
				if ags := x.adapter.GetGameState(); ags != nil {
					tmp := &pokertable.Table{State: &pokertable.TableState{Status: prevLive.State.Status, GameState: ags}}
					if v := hiddenViolation(tmp); v != "" {
						report("C20.leak."+string(prevLive.State.Status), fmt.Sprintf("non-system observer %d, through its adapter's GetGameState after an older snapshot of the hand was delivered late: %s", i, v))
						return
					}
				}
				if x.got != nil {
					var t pokertable.Table
					json.Unmarshal([]byte(x.got.raw), &t)
					if v := hiddenViolation(&t); v != "" {
						report("C20.leak."+string(prevLive.State.Status), fmt.Sprintf("non-system observer %d was handed an older snapshot delivered late, unmasked: %s", i, v))
						return
					}
				}
				x.adapter.UpdateTableState(live)
			}
		}
		if cl, err := live.Clone(); err == nil {
			prevLive = cl
		}
		if gs != nil {
			dealt := false
			for _, p := range gs.Players {
				if len(p.HoleCards) > 0 {
					dealt = true
				}
			}
			switch {
			case gs.Status.CurrentEvent == "GameClosed":
				folded, shown := 0, 0
				for _, p := range gs.Players {
					if p.Fold {
						folded++
					} else {
						shown++
					}
				}
				if folded > 0 && shown > 1 {
					labels["closed_showdown_with_fold"] = true
					nontrivial = true
				} else if shown == 1 {
					labels["closed_foldout"] = true
				} else {
					labels["closed_showdown"] = true
				}
			case dealt:
				labels["playing_with_cards"] = true
				nontrivial = true
			}
			if live.State.Status != pokertable.TableStateStatus_TableGamePlaying && live.State.Status != pokertable.TableStateStatus_TableGameSettled {
				labels["hand_state_in_status_"+string(live.State.Status)] = true
			}
		}
	}
	// external pause / close while a hand runs (the engine keeps publishing the hand under that status)
	ctl := choose.Weighted(c.Ch, "ctl", []int{6, 2, 1})
	ctlAt := c.Ch.Int("ctl.at", 1, 12)
	decisions := 0
	cfg := sim.GenConfig(c.Ch, sim.GenOpts{ShortStacks: 30, SitOutPct: 15, AnteePct: 30, MaxPlayers: 7, Rules: []int{4, 1}})
	if len(cfg.Players) > 0 {
		playerID = cfg.Players[0].ID
	}
	var hooks sim.Hooks
	hooks.AtDecision = func(s *sim.Sim, d *sim.Decision) {
		decisions++
		// table-level operations while the hand runs: the engine re-publishes the table with
		// the unchanged hand state
		if choose.Chance(c.Ch, "midhand.op", 12) {
			switch c.Ch.Int("midhand.kind", 0, 2) {
			case 0:
				s.RandomMembershipOp(sim.MemOpts{NewPlayer: 3, NewRandom: 1, JoinSitter: 2, KeepSitting: 30, MaxNewID: 12})
			case 1:
				if d.Kind == "turn" {
					s.API.PlayerExtendActionDeadline(d.Asked[0], c.Ch.Int("ext", 0, 30))
				}
			case 2:
				s.RandomMembershipOp(sim.MemOpts{Addon: 2, Rebuy: 2, MaxNewID: 12, TopupAnyone: true})
			}
			labels["table_level_op_during_hand"] = true
		}
		if ctl != 0 && decisions == ctlAt {
			if ctl == 1 {
				s.API.PauseTable()
				labels["paused_during_hand"] = true
			} else {
				s.API.CloseTable()
				labels["closed_during_hand"] = true
			}
			s.Drain()
			s.Stall = "external pause/close during the hand (end of case)"
		}
	}
	s := sim.New(c.Ch, cfg, hooks)
	c.Defer(s.Finish)
	s.InCallbackLive = fan
	if s.CreateErr == nil && len(sim.LivePlayers(s.Now())) >= 2 && s.StartFirst(nil) {
		hands := c.Ch.Int("hands", 1, 4)
		for i := 0; i < hands; i++ {
			if s.GateArmed == nil || len(s.GateArmed.Participants) <= 1 {
				break
			}
			h := s.PlayHand(s.PlanSignals(0))
			if s.Stall != "" || h.Outcome != "gate" {
				break
			}
		}
	}
	// let the last callbacks finish before judging
	time.Sleep(200 * time.Microsecond)
	mu.Lock()
	sig, msgs := violSig, viol
	mu.Unlock()
	if sig != "" {
		c.Failf(sig, "%s", msgs[0])
	}
	ls := []string{}
	for l := range labels {
		ls = append(ls, l)
	}
	c.St.Add("snapshots_fanned_out", int64(snapshots))
	c.St.Case(ls, nontrivial, fmt.Sprintf("%v%v", order, s.Ch.Notes), func() interface{} {
		nn := s.Ch.Notes
		if len(nn) > 20 {
			nn = nn[:20]
		}
		return map[string]interface{}{"actors": order, "snapshots": snapshots, "ops": nn}
	})
}

func eventOf(t *pokertable.Table) string {
	if t.State.GameState == nil {
		return ""
	}
	return t.State.GameState.Status.CurrentEvent
}

func contains(ss []string, x string) bool {
	for _, s := range ss {
		if s == x {
			return true
		}
	}
	return false
}

func TestC20(t *testing.T) {
	run.Property(t, "C20", "c20", c20Stats, run.Scale(10, 100), c20Body)
}
