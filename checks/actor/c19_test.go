package actor

import (
	"fmt"
	"sync"
	"testing"
	"time"

	"github.com/weedbox/pokerface"
	"github.com/weedbox/pokertable"
	pactor "github.com/weedbox/pokertable/actor"

	"verif/harness/choose"
	"verif/harness/ev"
	"verif/harness/run"
	"verif/harness/sim"
)

var c19Stats = ev.New("C19", "c19")

// conservativeChoice is the statement's rule for a player who is asked and may not pass.
func conservativeChoice(gs *pokerface.GameState, gi int) (string, int64) {
	p := gs.GetPlayer(gi)
	switch {
	case has(p.AllowedActions, "ready"):
		return "ready", 0
	case has(p.AllowedActions, "check"):
		return "check", 0
	case has(p.AllowedActions, "fold"):
		return "fold", 0
	}
	if has(p.AllowedActions, "pay") {
		switch gs.Status.CurrentEvent {
		case "AnteRequested":
			return "pay", gs.Meta.Ante
		case "BlindsRequested":
			switch {
			case gs.HasPosition(gi, "sb"):
				return "pay", gs.Meta.Blind.SB
			case gs.HasPosition(gi, "bb"):
				return "pay", gs.Meta.Blind.BB
			}
			return "pay", gs.Meta.Blind.Dealer
		}
	}
	return "", 0
}

type presentation struct {
	st       handState
	id       string
	gi       int
	status   string // running idle suspended
	actTime  int
	ad       *recAdapter
	tIn      time.Time
	desc     string
	expected string
	expArg   int64
	// status histories (timed leg): what the model of the runner's status calls expects
	// of the final request: "wait" (thinking time first), "now" (suspended: at once), "either"
	expect     string
	history    []string
	skip       int // adapter calls made during the history
	lateUpdate bool
	levelMoved bool
}

var presentCount int

// statusModel is the runner's public status interface as its names and the threshold
// setter describe it: Idle() marks a player idle (a second Idle(), or a request that times
// out while idle, counts towards the suspend threshold), Resume() makes the player
// running, Suspend() suspends, any manual action clears the count.
type statusModel struct {
	st       string // running idle suspended
	n, k     int
	explicit bool // suspended by an explicit Suspend() call
}

func (m *statusModel) idle() {
	if m.st != "idle" {
		m.st, m.n = "idle", 0
	} else {
		m.n++
	}
	if m.n == m.k {
		m.st, m.explicit = "suspended", false
	}
}

// presentHistory applies a drawn history of status calls, timed-out requests and manual
// actions to a fresh runner and then presents the request with a real thinking time.
func presentHistory(st handState, id string, gi int, r *choose.SplitMix, actTime int) *presentation {
	p := &presentation{st: st, id: id, gi: gi, actTime: actTime}
	a := pactor.NewActor()
	p.ad = &recAdapter{}
	a.SetAdapter(p.ad)
	pr := pactor.NewPlayerRunner(id)
	a.SetRunner(pr)
	m := &statusModel{st: "running", k: 2}
	if r.Intn(2) == 0 {
		m.k = 1 + r.Intn(3)
		pr.SetSuspendThreshold(m.k)
	}
	p.history = append(p.history, fmt.Sprintf("threshold=%d", m.k))
	stamp := st.Table.State.GameState.UpdatedAt
	n := 1 + r.Intn(7)
	// a third of the histories start with a suspension reached by count
	// (Idle, then threshold-many timed-out requests)
	script := []int{}
	if r.Intn(3) == 0 {
		script = append(script, 0)
		for i := 0; i < m.k; i++ {
			script = append(script, 3)
		}
		n = len(script) + r.Intn(4)
	}
	pending := false // a request with a long thinking time is waiting to be overtaken
	for i := 0; i < n; i++ {
		op := []int{0, 0, 0, 1, 2, 3, 3, 3, 3, 5, 6, 6}[r.Intn(12)]
		if i < len(script) {
			op = script[i]
		}
		switch op {
		case 0:
			pr.Idle()
			m.idle()
			p.history = append(p.history, "Idle()")
		case 1:
			pr.Resume()
			if m.st != "running" {
				m.st, m.n = "running", 0
			}
			p.history = append(p.history, "Resume()")
		case 2:
			pr.Suspend()
			m.st, m.explicit = "suspended", true
			p.history = append(p.history, "Suspend()")
		case 3, 4:
			// a request that times out at once (action time 0): same hand state, later stamp
			view := cloneT(st.Table)
			view.Meta.ActionTime = 0
			stamp++
			view.State.GameState.UpdatedAt = stamp
			p.ad.UpdateTableState(view)
			if m.st == "idle" {
				m.idle()
			}
			p.history = append(p.history, "request-timed-out")
		case 5:
			pr.Ready() // a manual action (the recording adapter accepts anything)
			m.n = 0
			p.history = append(p.history, "manual-action")
		case 6:
			// a request with a long thinking time that is overtaken by the next request before
			// it runs out (the player answered by himself, or the hand moved on): the player was
			// not given the time, so it is not a missed turn and counts towards nothing
			view := cloneT(st.Table)
			view.Meta.ActionTime = 30
			stamp++
			view.State.GameState.UpdatedAt = stamp
			p.ad.UpdateTableState(view)
			p.history = append(p.history, "request-overtaken")
			pending = true
			continue
		}
		if pending && (op == 3 || op == 4) {
			// the overtaken request's timer is cancelled on a goroutine of its own; requests are
			// milliseconds apart in reality, so let it finish before the history goes on
			time.Sleep(time.Millisecond)
			pending = false
		}
	}
	p.skip = len(p.ad.Calls())
	p.status = m.st
	switch {
	case m.st == "suspended" && m.explicit:
		p.expect = "now"
	case m.st == "suspended":
		p.expect = "either" // suspended by count: the statement does not fix the threshold semantics
	default:
		p.expect = "wait"
	}
	if pending {
		// overtake the waiting request with one that times out at once (not judged), and give
		// the cancelled timer's goroutine its turn before the judged request is presented
		view := cloneT(st.Table)
		view.Meta.ActionTime = 0
		stamp++
		view.State.GameState.UpdatedAt = stamp
		p.ad.UpdateTableState(view)
		if m.st == "idle" {
			m.idle()
		}
		p.history = append(p.history, "request-timed-out")
		time.Sleep(time.Millisecond)
		p.skip = len(p.ad.Calls())
		p.status = m.st
		switch {
		case m.st == "suspended" && m.explicit:
			p.expect = "now"
		case m.st == "suspended":
			p.expect = "either"
		default:
			p.expect = "wait"
		}
	}
	view := cloneT(st.Table)
	view.Meta.ActionTime = actTime
	stamp++
	view.State.GameState.UpdatedAt = stamp
	p.tIn = time.Now()
	p.ad.UpdateTableState(view)
	p.desc = fmt.Sprintf("%s: player %s (game index %d) after %v (model: %s) action time=%ds", st.Desc, id, gi, p.history, m.st, actTime)
	return p
}

func present(st handState, id string, gi int, status string, actTime int) *presentation {
	p := &presentation{st: st, id: id, gi: gi, status: status, actTime: actTime}
	a := pactor.NewActor()
	p.ad = &recAdapter{}
	a.SetAdapter(p.ad)
	pr := pactor.NewPlayerRunner(id)
	a.SetRunner(pr)
	switch status {
	case "idle":
		pr.Idle()
	case "suspended":
		pr.Suspend()
	}
	view := cloneT(st.Table)
	view.Meta.ActionTime = actTime
	levelMoved := ""
	if presentCount++; presentCount%3 == 0 && view.State.BlindState != nil {
		// the blind level was raised after this hand opened (UpdateBlind during the hand): the
		// hand keeps its own antes and blinds
		b := view.State.BlindState
		b.Level, b.Ante, b.Dealer, b.SB, b.BB = b.Level+1, b.Ante+7, b.Dealer+3, 2*b.SB+1, 2*b.BB+1
		levelMoved = " (table level raised during the hand)"
		p.levelMoved = true
	}
	p.tIn = time.Now()
	p.ad.UpdateTableState(view)
	p.desc = fmt.Sprintf("%s: player %s (game index %d) status=%s action time=%ds%s", st.Desc, id, gi, status, actTime, levelMoved)
	return p
}

// judge the calls recorded so far; final = the thinking time plus margin has passed
func (p *presentation) judge(final bool) (string, string) {
	gs := p.st.Table.State.GameState
	calls := p.ad.Calls()[p.skip:]
	for _, cl := range calls {
		switch cl.Kind {
		case "call", "bet", "raise", "allin":
			return "C19.volunteered-chips." + cl.Kind, fmt.Sprintf("%s: auto-play submitted %s(%d)", p.desc, cl.Kind, cl.Arg)
		}
		if cl.Player != p.id {
			return "C19.wrong-player", fmt.Sprintf("%s: acted for %s", p.desc, cl.Player)
		}
	}
	asked := false
	var pl *pokerface.PlayerState
	if p.gi >= 0 && p.st.Table.State.Status == pokertable.TableStateStatus_TableGamePlaying {
		pl = gs.GetPlayer(p.gi)
		asked = pl != nil && len(pl.AllowedActions) > 0
	}
	if !asked {
		if len(calls) > 0 {
			return "C19.acted-when-not-asked", fmt.Sprintf("%s: not asked, but called %+v", p.desc, calls)
		}
		return "", ""
	}
	if len(calls) > 1 {
		return "C19.more-than-one", fmt.Sprintf("%s: %d calls: %+v", p.desc, len(calls), calls)
	}
	if has(pl.AllowedActions, "pass") {
		if len(calls) != 1 || calls[0].Kind != "pass" {
			return "C19.pass-not-immediate", fmt.Sprintf("%s: pass is the only option but the runner did %+v", p.desc, calls)
		}
		p.expected = "pass"
		return "", ""
	}
	kind, arg := conservativeChoice(gs, p.gi)
	p.expected, p.expArg = kind, arg
	immediate := p.status == "suspended" || p.actTime == 0
	mayBeEarly := immediate
	if p.expect != "" {
		immediate = p.expect == "now"
		mayBeEarly = p.expect != "wait"
	}
	if len(calls) == 1 {
		cl := calls[0]
		if !mayBeEarly && cl.At.Sub(p.tIn) < time.Duration(p.actTime)*time.Second {
			return "C19.acted-before-time", fmt.Sprintf("%s: acted %v after the request, thinking time is %d s", p.desc, cl.At.Sub(p.tIn), p.actTime)
		}
		if cl.Kind != kind || (kind == "pay" && cl.Arg != arg) {
			return "C19.not-conservative", fmt.Sprintf("%s: allowed %v (positions %v, event %s): expected %s(%d), got %s(%d)", p.desc, pl.AllowedActions, pl.Positions, gs.Status.CurrentEvent, kind, arg, cl.Kind, cl.Arg)
		}
		return "", ""
	}
	// no call yet
	if kind == "" {
		return "", "" // nothing the rule lets it do
	}
	if immediate || final {
		return "C19.no-action", fmt.Sprintf("%s: allowed %v: expected %s(%d) but the runner did nothing", p.desc, pl.AllowedActions, kind, arg)
	}
	return "", ""
}

func c19Body(c *run.Ctx) {
	labels := map[string]bool{}
	nontrivial := false
	states := 0
	onState := func(s *sim.Sim, st handState) {
		states++
		gs := st.Table.State.GameState
		ids := append(sim.AllPlayers(st.Table), "stranger")
		for _, id := range ids {
			gi := -1
			for i, m := range st.M {
				if m == id {
					gi = i
				}
			}
			for _, status := range []string{"running", "idle", "suspended"} {
				p := present(st, id, gi, status, 0)
				if sig, msg := p.judge(true); sig != "" {
					c.Failf(sig, "%s", msg)
				}
				if p.levelMoved && p.expected == "pay" {
					labels["pay_with_table_level_raised_during_hand"] = true
				}
				if p.expected != "" {
					l := "choice_" + p.expected
					if p.expected == "pay" {
						switch {
						case gs.Status.CurrentEvent == "AnteRequested":
							l = "choice_pay_ante"
						case gs.HasPosition(gi, "sb"):
							l = "choice_pay_sb"
						case gs.HasPosition(gi, "bb"):
							l = "choice_pay_bb"
						default:
							l = "choice_pay_dealer"
						}
						nontrivial = true
					}
					labels[l] = true
					labels[status] = true
					if pl := gs.GetPlayer(gi); pl != nil && len(pl.AllowedActions) > 0 && pl.AllowedActions[0] != p.expected {
						nontrivial = true
						labels["choice_not_first_allowed"] = true
					}
				}
			}
		}
	}
	s := collectStates(c, sim.GenOpts{ShortStacks: 45, SitOutPct: 15, AnteePct: 45, DealerBlindPct: 20, NoSBPct: 10, MaxPlayers: 7, Rules: []int{4, 1}}, c.Ch.Int("hands", 1, 3), onState)
	_ = s
	ls := []string{}
	for l := range labels {
		ls = append(ls, l)
	}
	c.St.Add("states_presented", int64(states))
	c.St.Case(ls, nontrivial, fmt.Sprintf("%v", s.Ch.Notes), func() interface{} {
		n := s.Ch.Notes
		if len(n) > 20 {
			n = n[:20]
		}
		return map[string]interface{}{"states": states, "ops": n}
	})
}

func TestC19(t *testing.T) {
	run.Property(t, "C19", "c19", c19Stats, run.Scale(10, 100), c19Body)
}

// ---------------------------------------------------------------------------
// timed leg: thinking time 1-2 s; presentations are armed together and judged
// after one wait, so the real seconds are paid once per batch.

var c19tStats = ev.New("C19", "c19t")

type seededCh struct{ r *choose.SplitMix }

func (s seededCh) Int(label string, lo, hi int) int {
	if hi <= lo {
		return lo
	}
	return lo + s.r.Intn(hi-lo+1)
}

func TestC19Timed(t *testing.T) {
	defer c19tStats.Write()
	want := run.Scale(600, 8000)
	seed := uint64(run.Seed())*4241 + uint64(run.Shard())*811
	var mu sync.Mutex
	var ps []*presentation
	for k := 0; len(ps) < want && k < 400; k++ {
		rec := choose.NewRecorder(seededCh{choose.NewSplitMix(seed + uint64(k))})
		c := &run.Ctx{Prop: "C19", Check: "c19t", TB: t, St: c19tStats, Ch: rec}
		r := choose.NewSplitMix(seed*31 + uint64(k))
		func() {
			defer func() { recover() }()
			collectStates(c, sim.GenOpts{ShortStacks: 45, AnteePct: 45, DealerBlindPct: 20, MaxPlayers: 6, Rules: []int{4, 1}}, 2, func(s *sim.Sim, st handState) {
				for gi, id := range st.M {
					if r.Intn(3) != 0 {
						continue
					}
					status := []string{"running", "idle"}[r.Intn(2)]
					at := 1 + r.Intn(2)
					var p *presentation
					if pl := st.Table.State.GameState.GetPlayer(gi); r.Intn(2) == 0 && pl != nil && len(pl.AllowedActions) > 0 && !has(pl.AllowedActions, "pass") && st.Table.State.Status == pokertable.TableStateStatus_TableGamePlaying {
						p = presentHistory(st, id, gi, r, at)
					} else {
						p = present(st, id, gi, status, at)
						if pl != nil && len(pl.AllowedActions) > 0 && !has(pl.AllowedActions, "pass") && st.Table.State.Status == pokertable.TableStateStatus_TableGamePlaying && r.Intn(3) == 0 {
							// 300 ms into the thinking time the table publishes the hand again without a
							// request for this player (as after he answered by himself, or a table-level
							// event): the runner is not asked anew, and when the time of the request it
							// was armed for runs out it still owes that request's conservative answer
							late := cloneT(st.Table)
							late.Meta.ActionTime = at
							late.State.GameState.UpdatedAt++
							if lp := late.State.GameState.GetPlayer(gi); lp != nil {
								lp.AllowedActions = nil
							}
							p.lateUpdate = true
							go func(p *presentation) {
								time.Sleep(300 * time.Millisecond)
								p.ad.UpdateTableState(late)
							}(p)
						}
					}
					mu.Lock()
					ps = append(ps, p)
					mu.Unlock()
				}
			})
		}()
	}
	// early check: nothing may have happened yet except immediate passes
	for _, p := range ps {
		if sig, msg := p.judge(false); sig != "" {
			c := &run.Ctx{Prop: "C19", Check: "c19t", TB: t, St: c19tStats, Ch: choose.NewRecorder(choose.NewScriptChooser(nil))}
			func() {
				defer func() { recover() }()
				c.Failf(sig, "%s", msg)
			}()
			return
		}
	}
	time.Sleep(2*time.Second + 1500*time.Millisecond)
	for i, p := range ps {
		sig, msg := p.judge(true)
		if sig != "" {
			c := &run.Ctx{Prop: "C19", Check: "c19t", TB: t, St: c19tStats, Ch: choose.NewRecorder(choose.NewScriptChooser(nil))}
			func() {
				defer func() { recover() }()
				c.Failf(sig, "%s", msg)
			}()
			return
		}
		ls := []string{fmt.Sprintf("timed_%ds", p.actTime), p.status}
		if p.expect != "" {
			ls = append(ls, "history_expect_"+p.expect, fmt.Sprintf("history_len_%d", len(p.history)-1))
			for i := 2; i < len(p.history); i++ {
				if p.history[i] == "Idle()" && p.history[i-1] == "request-timed-out" {
					ls = append(ls, "history_idle_call_after_timeouts")
				}
			}
		}
		if p.lateUpdate {
			ls = append(ls, "late_update_without_request")
		}
		for _, h := range p.history {
			if h == "request-overtaken" {
				ls = append(ls, "history_request_overtaken")
				break
			}
		}
		if p.expected != "" {
			ls = append(ls, "timed_choice_"+p.expected)
		}
		c19tStats.Case(ls, p.expected != "" && p.expected != "pass", fmt.Sprintf("%d:%s", i, p.desc), func() interface{} { return p.desc + " -> " + p.expected })
	}
}
