package seat

import (
	"fmt"
	"runtime"
	"sort"
	"strings"
	"sync"
	"sync/atomic"
	"testing"
	"time"

	"github.com/anishathalye/porcupine"
	"github.com/weedbox/pokertable/seat_manager"

	"verif/harness/choose"
	"verif/harness/ev"
	"verif/harness/linmodel"
	"verif/harness/run"
)

var c16aStats = ev.New("C16", "c16a")

func c16aBody(c *run.Ctx) {
	n := c.Ch.Int("seats", 2, 10)
	sm := seat_manager.NewSeatManager(n, seat_manager.Rule_Default)
	pre := c.Ch.Int("pre", 0, n)
	perm := choose.Perm(c.Ch, "preperm", n)
	initial := map[string]int{}
	for i := 0; i < pre; i++ {
		id := fmt.Sprintf("s%d", i)
		sm.AssignSeats(map[string]int{id: perm[i]})
		initial[id] = perm[i]
	}
	g := c.Ch.Int("goroutines", 2, run.Scale(16, 48))
	type job struct {
		in   linmodel.Op
		spin int
		has  bool
		join bool
	}
	jobs := make([]job, g)
	next := pre
	seatHits := map[int]int{}
	labels := map[string]bool{fmt.Sprintf("N%d", n): true}
	for i := range jobs {
		j := &jobs[i]
		j.spin = c.Ch.Int("spin", 0, 3)
		switch choose.Weighted(c.Ch, "kind", []int{5, 4, 3, 2, 2}) {
		case 0:
			seat := c.Ch.Int("seat", 0, n-1)
			seatHits[seat]++
			j.in = linmodel.Op{Kind: "assign", ID: fmt.Sprintf("s%d", next), Seat: seat, N: n}
			next++
		case 1:
			j.in = linmodel.Op{Kind: "reserve", ID: fmt.Sprintf("s%d", next), Seat: -1, N: n}
			next++
		case 2:
			who := "ghost"
			if pre > 0 {
				who = fmt.Sprintf("s%d", c.Ch.Int("who", 0, pre-1))
			}
			j.in = linmodel.Op{Kind: "leave", IDs: []string{who}, N: n}
		case 3:
			who := "ghost"
			if pre > 0 {
				who = fmt.Sprintf("s%d", c.Ch.Int("who", 0, pre-1))
			}
			j.in = linmodel.Op{Kind: "touch", ID: who, N: n}
			j.join = true
		case 4:
			who := "ghost"
			if pre > 0 {
				who = fmt.Sprintf("s%d", c.Ch.Int("who", 0, pre-1))
			}
			j.in = linmodel.Op{Kind: "touch", ID: who, N: n}
			j.has = c.Ch.Int("has", 0, 1) == 1
		}
	}
	for _, h := range seatHits {
		if h >= 2 {
			labels["conflict_same_seat"] = true
		}
	}
	if pre+g >= n {
		labels["capacity_edge"] = true
	}
	ops := make([]porcupine.Operation, g)
	var wg, ready sync.WaitGroup
	var start int32 // spin barrier: releases all goroutines within nanoseconds of each other
	for i := range jobs {
		wg.Add(1)
		ready.Add(1)
		go func(i int) {
			defer wg.Done()
			j := jobs[i]
			ready.Done()
			for atomic.LoadInt32(&start) == 0 {
			}
			for k := 0; k < j.spin*20; k++ {
				_ = k
			}
			var err error
			t0 := time.Now().UnixNano()
			switch {
			case j.in.Kind == "assign":
				err = sm.AssignSeats(map[string]int{j.in.ID: j.in.Seat})
			case j.in.Kind == "reserve":
				err = sm.RandomAssignSeats([]string{j.in.ID})
			case j.in.Kind == "leave":
				err = sm.RemoveSeats(j.in.IDs)
			case j.join:
				err = sm.JoinPlayers([]string{j.in.ID})
			default:
				err = sm.UpdatePlayerHasChips(j.in.ID, j.has)
			}
			t1 := time.Now().UnixNano()
			ops[i] = porcupine.Operation{ClientId: i, Input: j.in, Call: t0, Output: linmodel.Out{OK: err == nil}, Return: t1}
		}(i)
	}
	ready.Wait()
	atomic.StoreInt32(&start, 1)
	wg.Wait()
	// final state: nobody twice, nothing out of range
	final := map[string]int{}
	for seat, sp := range sm.Seats() {
		if seat < 0 || seat >= n {
			c.Failf("C16.sm-seat-range", "seat key %d outside 0..%d after the burst", seat, n-1)
		}
		if sp == nil {
			continue
		}
		if other, dup := final[sp.ID]; dup {
			c.Failf("C16.sm-double-booked", "player %s holds seats %d and %d after the burst", sp.ID, other, seat)
		}
		final[sp.ID] = seat
	}
	hist := []porcupine.Operation{}
	t := int64(0)
	ids := []string{}
	for id := range initial {
		ids = append(ids, id)
	}
	sort.Strings(ids)
	for _, id := range ids {
		hist = append(hist, porcupine.Operation{ClientId: 1000, Input: linmodel.Op{Kind: "assign", ID: id, Seat: initial[id], N: n}, Call: t, Output: linmodel.Out{OK: true}, Return: t + 1})
		t += 2
	}
	base := int64(1 << 62)
	for _, o := range ops {
		if o.Call < base {
			base = o.Call
		}
	}
	var maxRet int64
	overlap := 0
	for i, o := range ops {
		o.Call, o.Return = o.Call-base+t, o.Return-base+t
		if o.Return > maxRet {
			maxRet = o.Return
		}
		hist = append(hist, o)
		for k := 0; k < i; k++ {
			if ops[k].Call < ops[i].Return && ops[i].Call < ops[k].Return {
				overlap++
			}
		}
	}
	hist = append(hist, porcupine.Operation{ClientId: 1001, Input: linmodel.Op{Kind: "final", N: n}, Call: maxRet + 1, Output: linmodel.Out{Final: linmodel.Enc(final)}, Return: maxRet + 2})
	switch porcupine.CheckOperationsTimeout(linmodel.SeatModel, hist, 10*time.Second) {
	case porcupine.Illegal:
		lines := []string{}
		for _, o := range ops {
			lines = append(lines, fmt.Sprintf("[%d,%d] %+v -> %+v", o.Call-base, o.Return-base, o.Input, o.Output))
		}
		c.Failf("C16.sm-not-linearizable", "no one-at-a-time order explains this burst on the seat manager (%d seats, initial %s, final %s):\n%s", n, linmodel.Enc(initial), linmodel.Enc(final), strings.Join(lines, "\n"))
	case porcupine.Unknown:
		c.St.Exclude("linearizability check timed out", 1)
	}
	if overlap > 0 {
		labels["overlapping"] = true
	}
	c.St.Add("overlapping_pairs", int64(overlap))
	c.St.Add("operations", int64(g))
	labels[fmt.Sprintf("GOMAXPROCS%d", runtime.GOMAXPROCS(0))] = true
	tr := []string{}
	for _, j := range jobs {
		tr = append(tr, fmt.Sprintf("%s%d", j.in.Kind[:2], j.in.Seat))
	}
	ls := []string{}
	for l := range labels {
		ls = append(ls, l)
	}
	c.St.Case(ls, labels["conflict_same_seat"] || labels["capacity_edge"], fmt.Sprintf("%d|%d|%s", n, pre, strings.Join(tr, "")), func() interface{} {
		lines := []string{}
		for _, o := range ops {
			lines = append(lines, fmt.Sprintf("%+v -> %+v", o.Input, o.Output))
		}
		return map[string]interface{}{"seats": n, "initial": linmodel.Enc(initial), "final": linmodel.Enc(final), "ops": lines}
	})
}

func TestC16SeatManager(t *testing.T) {
	run.Property(t, "C16", "c16a", c16aStats, run.Scale(10, 100), c16aBody)
}
