package seat

import (
	"encoding/json"
	"fmt"
	"os"
	"sort"
	"strings"
	"testing"

	"github.com/weedbox/pokertable/seat_manager"

	"verif/harness/choose"
	"verif/harness/ev"
	"verif/harness/run"
)

func TestMain(m *testing.M) { run.Main(m) }

// obs is the complete observable state of a seat manager.
type seatObs struct {
	ID                 string
	In, Between, Chips bool
}

type obs struct {
	N         int
	Seats     []*seatObs // index = seat, nil = empty
	D, SB, BB int
	Init      bool
	Extra     []int // seat keys outside 0..N-1
}

func observe(sm seat_manager.SeatManager, n int) obs {
	o := obs{N: n, Seats: make([]*seatObs, n), D: sm.CurrentDealerSeatID(), SB: sm.CurrentSBSeatID(), BB: sm.CurrentBBSeatID(), Init: sm.IsInitPositions()}
	for seat, sp := range sm.Seats() {
		if seat < 0 || seat >= n {
			o.Extra = append(o.Extra, seat)
			continue
		}
		if sp != nil {
			o.Seats[seat] = &seatObs{sp.ID, sp.IsIn, sp.IsBetweenDealerBB, sp.HasChips}
		}
	}
	sort.Ints(o.Extra)
	return o
}

func (o obs) key() string {
	var b strings.Builder
	for _, s := range o.Seats {
		if s == nil {
			b.WriteByte('.')
		} else {
			c := byte('a')
			if s.In {
				c += 1
			}
			if s.Chips {
				c += 2
			}
			if s.Between {
				c += 4
			}
			b.WriteByte(c)
		}
	}
	fmt.Fprintf(&b, "|%d,%d,%d,%v", o.D, o.SB, o.BB, o.Init)
	return b.String()
}

func (o obs) String() string {
	parts := []string{}
	for i, s := range o.Seats {
		if s == nil {
			continue
		}
		f := ""
		if !s.In {
			f += "out,"
		}
		if !s.Chips {
			f += "bust,"
		}
		if s.Between {
			f += "wait,"
		}
		parts = append(parts, fmt.Sprintf("%d:%s(%s)", i, s.ID, strings.TrimSuffix(f, ",")))
	}
	return fmt.Sprintf("N=%d D=%d SB=%d BB=%d init=%v seats[%s]", o.N, o.D, o.SB, o.BB, o.Init, strings.Join(parts, " "))
}

func (s *seatObs) live() bool   { return s != nil && s.In && s.Chips }
func (s *seatObs) active() bool { return s != nil && s.In && s.Chips && !s.Between }

func (o obs) nLive() int {
	n := 0
	for _, s := range o.Seats {
		if s.live() {
			n++
		}
	}
	return n
}

func (o obs) nActive() int {
	n := 0
	for _, s := range o.Seats {
		if s.active() {
			n++
		}
	}
	return n
}

func (o obs) activeSeats() []int {
	out := []int{}
	for i, s := range o.Seats {
		if s.active() {
			out = append(out, i)
		}
	}
	return out
}

func sameOccupancy(a, b obs) bool {
	for i := range a.Seats {
		x, y := a.Seats[i], b.Seats[i]
		if (x == nil) != (y == nil) {
			return false
		}
		if x != nil && (x.ID != y.ID || x.In != y.In || x.Chips != y.Chips) {
			return false
		}
	}
	return true
}

// violation describes a failed oracle.
type violation struct{ sig, msg string }

func bad(sig, format string, a ...interface{}) *violation {
	return &violation{sig, fmt.Sprintf(format, a...)}
}

// invariants that every state must satisfy (statement: seats within the
// configured count; button ids are unset or in range).
func checkState(o obs) *violation {
	if len(o.Extra) > 0 {
		return bad("C04.seat-key-range", "seat manager holds seat keys %v outside 0..%d: %s", o.Extra, o.N-1, o)
	}
	for _, v := range []int{o.D, o.SB, o.BB} {
		if v < -1 || v >= o.N {
			return bad("C04.button-range", "button seat %d outside 0..%d: %s", v, o.N-1, o)
		}
	}
	return nil
}

// positionsValid: what the statement demands of the button seats of any hand.
func positionsValid(o obs, rule, what string) *violation {
	k := o.nActive()
	if k < 2 {
		return bad("C04."+what+"-lt2", "%s succeeded with %d dealt-in players: %s", what, k, o)
	}
	if rule == seat_manager.Rule_ShortDeck {
		if o.D < 0 || !o.Seats[o.D].active() {
			return bad("C04."+what+"-sd-dealer", "short deck: dealer seat %d does not hold a dealt-in player: %s", o.D, o)
		}
		if o.SB != -1 || o.BB != -1 {
			return bad("C04."+what+"-sd-blinds", "short deck: blinds should be unset: %s", o)
		}
		return nil
	}
	if o.BB < 0 || !o.Seats[o.BB].active() {
		return bad("C04."+what+"-bb-not-dealt-in", "big-blind seat %d does not hold a dealt-in player: %s", o.BB, o)
	}
	if k == 2 {
		other := -1
		for _, s := range o.activeSeats() {
			if s != o.BB {
				other = s
			}
		}
		if o.D != other || o.SB != other {
			return bad("C04."+what+"-headsup", "two dealt in: dealer and small blind must be the other player (seat %d): %s", other, o)
		}
		return nil
	}
	if o.D < 0 || o.SB < 0 || o.D == o.SB || o.D == o.BB || o.SB == o.BB {
		return bad("C04."+what+"-distinct", "%d dealt in: dealer, small blind and big blind must be three distinct seats: %s", k, o)
	}
	return nil
}

// checkRotate is the dead-button relation between the state before and after
// a RotatePositions call (written from the statement of C04).
func checkRotate(pre, post obs, err error, rule string) *violation {
	if v := checkState(post); v != nil {
		return v
	}
	if !pre.Init {
		if err == nil {
			return bad("C04.rotate-before-init", "rotation accepted before positions were initialised: %s", pre)
		}
		if pre.D != post.D || pre.SB != post.SB || pre.BB != post.BB || !sameOccupancy(pre, post) {
			return bad("C04.refused-moved", "refused rotation moved something: %s -> %s", pre, post)
		}
		return nil
	}
	if err != nil {
		if pre.D != post.D || pre.SB != post.SB || pre.BB != post.BB || !sameOccupancy(pre, post) {
			return bad("C04.refused-moved", "refused rotation moved something: %s -> %s", pre, post)
		}
		if pre.nLive() >= 2 {
			// identify the history precisely: refused because all but at most one of the
			// live players carry the waiting flag after the refusal (known finding), or
			// refused although two live players are not even waiting (anything else)
			sig := "C04.refused-with-two-live"
			if post.nActive() < 2 {
				sig = "C04.refused-with-two-live.waiting-flag"
			}
			return bad(sig, "rotation refused although %d seated-in players have chips: %s -> %s", pre.nLive(), pre, post)
		}
		return nil
	}
	if !sameOccupancy(pre, post) {
		return bad("C04.rotate-occupancy", "rotation changed who sits where: %s -> %s", pre, post)
	}
	if v := positionsValid(post, rule, "rotate"); v != nil {
		v.msg += " (before: " + pre.String() + ")"
		if v.sig == "C04.rotate-distinct" && post.BB == pre.SB && post.D == pre.SB && post.SB == pre.BB {
			// the big blind wrapped onto the previous small-blind seat (everybody between
			// old BB and old SB is gone; the only other live players sat between old SB and old BB)
			v.sig = "C04.rotate-distinct.bb-wraps-onto-old-sb"
		}
		return v
	}
	n := pre.N
	if rule == seat_manager.Rule_ShortDeck {
		want := -1
		for i := 1; i <= n; i++ {
			s := (pre.D + i) % n
			if post.Seats[s].active() {
				want = s
				break
			}
		}
		if post.D != want {
			return bad("C04.sd-dealer-next", "short deck: dealer should pass from %d to the next dealt-in seat %d, got %d: %s -> %s", pre.D, want, post.D, pre, post)
		}
		return nil
	}
	// BB' = first live seat clockwise after BB: nobody skipped, never backwards
	wantBB := -1
	for i := 1; i <= n; i++ {
		s := (pre.BB + i) % n
		if pre.Seats[s].live() {
			wantBB = s
			break
		}
	}
	if post.BB != wantBB {
		return bad("C04.bb-next-live", "big blind should move from %d to the next seated-in player with chips at %d, got %d: %s -> %s", pre.BB, wantBB, post.BB, pre, post)
	}
	k := post.nActive()
	if k >= 3 {
		if post.SB != pre.BB {
			return bad("C04.sb-is-old-bb", "%d dealt in: small blind should be the previous big-blind seat %d, got %d: %s -> %s", k, pre.BB, post.SB, pre, post)
		}
		wasHU := pre.D == pre.SB && pre.BB != pre.D
		wantD := pre.SB
		if wasHU {
			wantD = -1
			for i := 1; i <= n; i++ {
				s := (post.SB - i + n*2) % n
				if pre.Seats[s].live() {
					wantD = s
					break
				}
			}
		}
		if post.D != wantD {
			return bad("C04.dealer-is-old-sb", "%d dealt in (previous hand heads-up=%v): dealer should be seat %d, got %d: %s -> %s", k, wasHU, wantD, post.D, pre, post)
		}
	}
	return nil
}

func checkInit(pre, post obs, err error, rule string) *violation {
	if v := checkState(post); v != nil {
		return v
	}
	if pre.Init {
		if err == nil {
			return bad("C04.init-twice", "second InitPositions accepted: %s", pre)
		}
		return nil
	}
	if err != nil {
		if pre.nActive() >= 2 {
			return bad("C04.init-refused", "InitPositions refused with %d eligible players: %s", pre.nActive(), pre)
		}
		return nil
	}
	if !post.Init {
		return bad("C04.init-flag", "InitPositions succeeded but positions are not marked initialised: %s", post)
	}
	return positionsValid(post, rule, "init")
}

// ---------------------------------------------------------------------------
// operations

type op struct {
	Kind string // assign join bust rebuy leave init rotate rassign rinit
	Seat int
}

func (o op) String() string { return fmt.Sprintf("%s(%d)", o.Kind, o.Seat) }

func pid(seat int) string { return fmt.Sprintf("s%d", seat) }

// apply executes op on sm. For seat-addressed ops the player is named by seat.
func apply(sm seat_manager.SeatManager, o op, cur obs) error {
	switch o.Kind {
	case "assign":
		return sm.AssignSeats(map[string]int{pid(o.Seat): o.Seat})
	case "join":
		return sm.JoinPlayers([]string{cur.Seats[o.Seat].ID})
	case "bust":
		return sm.UpdatePlayerHasChips(cur.Seats[o.Seat].ID, false)
	case "rebuy":
		return sm.UpdatePlayerHasChips(cur.Seats[o.Seat].ID, true)
	case "leave":
		return sm.RemoveSeats([]string{cur.Seats[o.Seat].ID})
	case "init":
		return sm.InitPositions(false)
	case "rinit":
		return sm.InitPositions(true)
	case "rotate":
		return sm.RotatePositions()
	}
	panic("unknown op " + o.Kind)
}

// stepAndCheck applies the op and runs the oracle for it.
func stepAndCheck(sm seat_manager.SeatManager, n int, rule string, o op) (obs, obs, error, *violation) {
	pre := observe(sm, n)
	err := apply(sm, o, pre)
	post := observe(sm, n)
	var v *violation
	switch o.Kind {
	case "rotate":
		v = checkRotate(pre, post, err, rule)
	case "init", "rinit":
		v = checkInit(pre, post, err, rule)
	default:
		v = checkState(post)
		if v == nil && (pre.D != post.D || pre.SB != post.SB || pre.BB != post.BB) {
			v = bad("C04.moved-without-rotation", "%s moved the button seats: %s -> %s", o, pre, post)
		}
	}
	return pre, post, err, v
}

// ---------------------------------------------------------------------------
// (1) rapid sequences

var c04Stats = ev.New("C04", "c04")

func c04Body(c *run.Ctx) {
	n := c.Ch.Int("seats", 2, 10)
	rule := seat_manager.Rule_Default
	if choose.Chance(c.Ch, "shortdeck", 20) {
		rule = seat_manager.Rule_ShortDeck
	}
	sm := seat_manager.NewSeatManager(n, rule)
	labels := map[string]bool{fmt.Sprintf("N%d", n): true}
	if rule == seat_manager.Rule_ShortDeck {
		labels["short_deck"] = true
	}
	trace := []string{fmt.Sprintf("N%d%s", n, rule)}
	steps := c.Ch.Int("steps", 1, 60)
	nontrivial := n != 9
	// seed: a few players so rotations happen early
	initial := c.Ch.Int("initial", 0, n)
	perm := choose.Perm(c.Ch, "initperm", n)
	for i := 0; i < initial; i++ {
		sm.AssignSeats(map[string]int{pid(perm[i]): perm[i]})
		if !choose.Chance(c.Ch, "initout", 15) {
			sm.JoinPlayers([]string{pid(perm[i])})
		}
	}
	for i := 0; i < steps; i++ {
		cur := observe(sm, n)
		occ, empty := []int{}, []int{}
		for s, sp := range cur.Seats {
			if sp == nil {
				empty = append(empty, s)
			} else {
				occ = append(occ, s)
			}
		}
		wInit := 0
		wRot := 10
		if !cur.Init {
			wInit = 10
			wRot = 1
		}
		wOcc := 0
		if len(occ) > 0 {
			wOcc = 1
		}
		wEmpty := 0
		if len(empty) > 0 {
			wEmpty = 1
		}
		k := choose.Weighted(c.Ch, "op", []int{wRot, wInit, 4 * wEmpty, 2 * wOcc, 3 * wOcc, 2 * wOcc, 2 * wOcc, 1 * wEmpty, wInit / 5})
		var o op
		switch k {
		case 0:
			o = op{"rotate", -1}
		case 1:
			o = op{"init", -1}
		case 2:
			o = op{"assign", empty[c.Ch.Int("seat", 0, len(empty)-1)]}
		case 3:
			o = op{"join", occ[c.Ch.Int("seat", 0, len(occ)-1)]}
		case 4:
			o = op{"bust", occ[c.Ch.Int("seat", 0, len(occ)-1)]}
		case 5:
			o = op{"rebuy", occ[c.Ch.Int("seat", 0, len(occ)-1)]}
		case 6:
			o = op{"leave", occ[c.Ch.Int("seat", 0, len(occ)-1)]}
		case 7:
			// random seat: the manager picks a free seat; the player is then
			// re-seated under the seat-derived name to keep the naming invariant
			before := observe(sm, n)
			if err := sm.RandomAssignSeats([]string{"rnd"}); err == nil {
				after := observe(sm, n)
				for s := range after.Seats {
					if before.Seats[s] == nil && after.Seats[s] != nil {
						sm.RemoveSeats([]string{"rnd"})
						sm.AssignSeats(map[string]int{pid(s): s})
						sm.JoinPlayers([]string{pid(s)})
						labels["random_seat"] = true
					}
				}
			}
			c.Ch.Note("rassign")
			continue
		case 8:
			o = op{"rinit", -1}
		}
		pre, post, err, v := stepAndCheck(sm, n, rule, o)
		c.Ch.Note("%s -> err=%v  %s", o, err, post)
		if o.Kind == "assign" && err == nil && !choose.Chance(c.Ch, "stayout", 15) {
			sm.JoinPlayers([]string{pid(o.Seat)})
		}
		if v != nil {
			c.Failf(v.sig, "%s after ops; op %s: %s", rule, o, v.msg)
		}
		if o.Kind == "rotate" {
			trace = append(trace, "R")
			if err != nil {
				labels["refused"] = true
				trace = append(trace, "x")
			} else if rule == seat_manager.Rule_Default {
				wasHU := pre.D == pre.SB && pre.BB != pre.D
				if post.D < 0 || post.SB < 0 {
					continue
				}
				if pre.SB >= 0 && !pre.Seats[pre.SB].live() {
					labels["dead_sb_before"] = true
					nontrivial = true
				}
				if !post.Seats[post.D].active() {
					labels["dead_dealer"] = true
					nontrivial = true
				}
				if !post.Seats[post.SB].active() {
					labels["dead_sb"] = true
					nontrivial = true
				}
				if wasHU && post.nActive() >= 3 {
					labels["hu_to_ring"] = true
					nontrivial = true
				}
				if !wasHU && post.nActive() == 2 {
					labels["ring_to_hu"] = true
					nontrivial = true
				}
				for _, sp := range post.Seats {
					if sp != nil && sp.Between && sp.In && sp.Chips {
						labels["waiting_player_present"] = true
					}
				}
				trace = append(trace, fmt.Sprintf("%d%d%d", post.D, post.SB, post.BB))
			}
		} else {
			trace = append(trace, o.Kind[:2])
		}
	}
	ls := []string{}
	for l := range labels {
		ls = append(ls, l)
	}
	c.St.Case(ls, nontrivial, strings.Join(trace, ""), func() interface{} {
		ops := c.Ch.Notes
		if len(ops) > 30 {
			ops = ops[:30]
		}
		return map[string]interface{}{"seats": n, "rule": rule, "ops": ops}
	})
}

func TestC04Rapid(t *testing.T) {
	run.Property(t, "C04", "c04", c04Stats, run.Scale(50, 500), c04Body)
}

// ---------------------------------------------------------------------------
// (2) small-scope exhaustive: breadth-first enumeration of every reachable
// observable state of the real implementation, every transition checked.

type node struct {
	parent int
	op     op
	depth  int
	key    string // observable state (the manager's exported fields are its whole state)
}

// restore builds a manager in the given saved state. The seat manager's state
// consists of exported, JSON-tagged fields only (it is meant to be persisted:
// NewSeatManagerFromState), so a JSON round trip into a fresh manager clones it.
func restore(n int, rule string, key string) seat_manager.SeatManager {
	sm := seat_manager.NewSeatManager(n, rule)
	if key != "" {
		if err := json.Unmarshal(jsonFromKey(n, rule, key), sm); err != nil {
			panic(err)
		}
	}
	return sm
}

// jsonFromKey renders the seat manager's persisted form for an observable state.
func jsonFromKey(n int, rule, key string) []byte {
	parts := strings.SplitN(key, "|", 2)
	var d, sb, bb int
	var init bool
	fmt.Sscanf(parts[1], "%d,%d,%d,%t", &d, &sb, &bb, &init)
	var b strings.Builder
	fmt.Fprintf(&b, `{"max_seat":%d,"seat_data":{`, n)
	for i := 0; i < n; i++ {
		if i > 0 {
			b.WriteByte(',')
		}
		ch := parts[0][i]
		if ch == '.' {
			fmt.Fprintf(&b, `"%d":null`, i)
			continue
		}
		f := int(ch - 'a')
		fmt.Fprintf(&b, `"%d":{"id":"%s","is_in":%t,"is_between_dealer_bb":%t,"has_chips":%t}`, i, pid(i), f&1 != 0, f&4 != 0, f&2 != 0)
	}
	fmt.Fprintf(&b, `},"dealer_seat_id":%d,"sb_seat_id":%d,"bb_seat_id":%d,"rule":%q,"is_init":%t}`, d, sb, bb, rule, init)
	return []byte(b.String())
}

func rebuild(n int, rule string, nodes []node, idx int) seat_manager.SeatManager {
	path := []op{}
	for i := idx; i > 0; i = nodes[i].parent {
		path = append(path, nodes[i].op)
	}
	sm := seat_manager.NewSeatManager(n, rule)
	for i := len(path) - 1; i >= 0; i-- {
		apply(sm, path[i], observe(sm, n))
	}
	return sm
}

func pathString(nodes []node, idx int) string {
	path := []string{}
	for i := idx; i > 0; i = nodes[i].parent {
		path = append(path, nodes[i].op.String())
	}
	for i, j := 0, len(path)-1; i < j; i, j = i+1, j-1 {
		path[i], path[j] = path[j], path[i]
	}
	return strings.Join(path, " ")
}

func enabledOps(o obs) []op {
	ops := []op{{"rotate", -1}, {"init", -1}}
	for s, sp := range o.Seats {
		if sp == nil {
			ops = append(ops, op{"assign", s})
			continue
		}
		if !sp.In {
			ops = append(ops, op{"join", s})
		}
		if sp.Chips {
			ops = append(ops, op{"bust", s})
		} else {
			ops = append(ops, op{"rebuy", s})
		}
		ops = append(ops, op{"leave", s})
	}
	return ops
}

type bfsResult struct {
	states, transitions int
	rotations           int
	nontrivial          int
	viol                *violation
	path                string
	maxDepth            int
	complete            bool
	knownPaths          map[string]string
}

func bfs(n int, rule string, maxStates int, known map[string]bool) bfsResult {
	var res bfsResult
	nodes := []node{{parent: -1}}
	seen := map[string]int{observe(seat_manager.NewSeatManager(n, rule), n).key(): 0}
	res.complete = true
	for head := 0; head < len(nodes); head++ {
		base := restore(n, rule, nodes[head].key)
		cur := observe(base, n)
		if head%997 == 0 {
			// cross-check the cloning shortcut against plain re-execution of the op path
			if k := observe(rebuild(n, rule, nodes, head), n).key(); k != cur.key() {
				panic("c04x: snapshot restore disagrees with path replay: " + k + " vs " + cur.key())
			}
		}
		for _, o := range enabledOps(cur) {
			sm := restore(n, rule, nodes[head].key)
			pre, post, err, v := stepAndCheck(sm, n, rule, o)
			res.transitions++
			if o.Kind == "rotate" {
				res.rotations++
				if err == nil && rule == seat_manager.Rule_Default && post.D >= 0 && post.SB >= 0 && (!post.Seats[post.D].active() || !post.Seats[post.SB].active() || (pre.D == pre.SB) != (post.D == post.SB)) {
					res.nontrivial++
				}
			}
			if v != nil {
				if known[v.sig] {
					// known finding: do not explore beyond a state the rule already calls invalid
					if res.knownPaths == nil {
						res.knownPaths = map[string]string{}
					}
					if _, ok := res.knownPaths[v.sig]; !ok {
						res.knownPaths[v.sig] = pathString(nodes, head) + " " + o.String() + " :: " + v.msg
					}
					continue
				}
				res.viol = v
				res.path = pathString(nodes, head) + " " + o.String()
				return res
			}
			k := post.key()
			if _, ok := seen[k]; !ok {
				if len(nodes) >= maxStates {
					res.complete = false
					continue
				}
				seen[k] = len(nodes)
				nodes = append(nodes, node{parent: head, op: o, depth: nodes[head].depth + 1, key: k})
				if nodes[head].depth+1 > res.maxDepth {
					res.maxDepth = nodes[head].depth + 1
				}
			}
		}
	}
	res.states = len(nodes)
	return res
}

var c04xStats = ev.New("C04", "c04x")

func TestC04Exhaustive(t *testing.T) {
	defer c04xStats.Write()
	maxN := run.Scale(4, 5)
	if v := envInt("VERIF_C04_MAXN", 0); v > 0 {
		maxN = v
	}
	known := map[string]bool{}
	for _, k := range run.KnownFor("C04") {
		known[k.Sig] = true
	}
	allComplete := true
	for _, rule := range []string{seat_manager.Rule_Default, seat_manager.Rule_ShortDeck} {
		for n := 2; n <= maxN; n++ {
			r := bfs(n, rule, 3000000, known)
			if r.viol != nil {
				c := &run.Ctx{Prop: "C04", Check: "c04x", TB: t, St: c04xStats}
				c.Ch = choose.NewRecorder(choose.NewScriptChooser(nil))
				c.Ch.Note("exhaustive N=%d rule=%s path: %s", n, rule, r.path)
				func() {
					defer func() { recover() }()
					c.Failf(r.viol.sig, "exhaustive N=%d rule=%s, shortest path [%s]: %s", n, rule, r.path, r.viol.msg)
				}()
				return
			}
			for sig, p := range r.knownPaths {
				c04xStats.Label("known_finding_hit:"+sig, 1)
				fmt.Fprintf(os.Stderr, "c04x N=%d %s known %s: %s\n", n, rule, sig, p)
			}
			c04xStats.Add(fmt.Sprintf("states_N%d_%s", n, rule), int64(r.states))
			c04xStats.Add(fmt.Sprintf("transitions_N%d_%s", n, rule), int64(r.transitions))
			c04xStats.Add("states", int64(r.states))
			c04xStats.Add("transitions", int64(r.transitions))
			c04xStats.Add("rotations", int64(r.rotations))
			c04xStats.Add("nontrivial_rotations", int64(r.nontrivial))
			// every (state, operation) pair is distinct by construction of the BFS
			c04xStats.Add("evaluations_enumerated", int64(r.transitions))
			c04xStats.Add("distinct_nontrivial_enumerated", int64(r.nontrivial))
			if !r.complete {
				allComplete = false
			}
			c04xStats.Sample(map[string]interface{}{"exhaustive_N": n, "rule": rule, "states": r.states, "transitions": r.transitions, "rotations": r.rotations, "max_depth": r.maxDepth, "complete": r.complete})
		}
	}
	c04xStats.Exhaustive = allComplete
}

func envInt(name string, def int) int {
	var n int
	if _, err := fmt.Sscan(os.Getenv(name), &n); err == nil {
		return n
	}
	return def
}

// ---------------------------------------------------------------------------
// (3) pinned demonstrations of the known (unrepaired) findings: each is replayed
// on every run; while it still fails with its own signature the driver prints a
// KNOWN-FINDING line. Any other outcome of the same path is a violation.

type pinned struct {
	n    int
	rule string
	path string
	sig  string
}

var c04Pinned = []pinned{
	{4, seat_manager.Rule_Default, "assign(0) join(0) assign(1) join(1) assign(2) join(2) init(-1) bust(0) bust(2) rotate(-1) rebuy(0) rotate(-1)", "C04.refused-with-two-live.waiting-flag"},
	{4, seat_manager.Rule_Default, "assign(0) join(0) assign(1) join(1) assign(2) join(2) init(-1) bust(1) assign(3) join(3) rotate(-1)", "C04.rotate-distinct.bb-wraps-onto-old-sb"},
}

func parsePath(p string) []op {
	out := []op{}
	for _, f := range strings.Fields(p) {
		var o op
		i := strings.Index(f, "(")
		o.Kind = f[:i]
		fmt.Sscanf(f[i:], "(%d)", &o.Seat)
		out = append(out, o)
	}
	return out
}

var c04pStats = ev.New("C04", "c04p")

func TestC04Pinned(t *testing.T) {
	defer c04pStats.Write()
	for _, p := range c04Pinned {
		sm := seat_manager.NewSeatManager(p.n, p.rule)
		var last *violation
		for _, o := range parsePath(p.path) {
			_, _, _, v := stepAndCheck(sm, p.n, p.rule, o)
			last = v
			if v != nil {
				break
			}
		}
		c := &run.Ctx{Prop: "C04", Check: "c04p", TB: t, St: c04pStats}
		c.Ch = choose.NewRecorder(choose.NewScriptChooser(nil))
		c.Ch.Note("pinned N=%d rule=%s path: %s", p.n, p.rule, p.path)
		if last != nil {
			func() {
				defer func() { recover() }()
				c.Failf(last.sig, "pinned path [%s]: %s", p.path, last.msg)
			}()
		}
		c04pStats.Case([]string{"pinned"}, true, p.path, func() interface{} { return p.path })
	}
}
