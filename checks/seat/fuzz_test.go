package seat

import (
	"testing"

	"verif/harness/choose"
	"verif/harness/ev"
	"verif/harness/run"
)

// FuzzC04 feeds coverage-guided byte strings through the same decision stream as
// the rapid check (choose.Bytes decodes them into bounded draws), with the same
// dead-button oracle inside the target. A crasher is minimised by the fuzzer; the
// decision script of the failing execution is saved under replays/C04 like any
// other failure and can be replayed with ./check C04 --replay.
var c04fStats = ev.New("C04", "c04fuzz")

func FuzzC04(f *testing.F) {
	f.Add([]byte{})
	f.Add([]byte{2, 0, 40, 3, 0, 1, 2, 0, 0, 0, 0, 0, 0, 0})
	f.Add([]byte{4, 0, 30, 4, 3, 2, 1, 0, 1, 0, 0, 5, 0, 3, 1, 0, 0, 4, 2, 0, 0})
	f.Add([]byte{8, 1, 59, 6, 7, 6, 5, 4, 3, 2, 1, 0, 0, 0, 0, 3, 0, 0, 2, 0, 1, 0, 0, 0})
	f.Fuzz(func(t *testing.T, data []byte) {
		c := &run.Ctx{Prop: "C04", Check: "c04fuzz", TB: t, St: c04fStats}
		c.Ch = choose.NewRecorder(&choose.Bytes{B: data})
		defer func() {
			if r := recover(); r != nil {
				if !run.IsCaseEnd(r) {
					panic(r)
				}
			}
		}()
		c04Body(c)
	})
}
