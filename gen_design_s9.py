#!/usr/bin/env python3
# regenerates the table of DESIGN.md section 9 from seeded/*/meta.json
import json, glob, os
p = '/verif/DESIGN.md'
s = open(p).read()
head = '| property | seeded change | needs | caught by (quick tier) | outcome |'
k = s.index(head)
e = s.index('\n\n', k)
rows = [head, '|---|---|---|---|---|']
metas = []
for d in sorted(glob.glob('/verif/seeded/*/meta.json')):
    m = json.load(open(d))
    metas.append((m['property'], os.path.basename(os.path.dirname(d)), m))
missed = 0
for prop, name, m in sorted(metas):
    out = m['outcome']
    if out.strip().lower().startswith('caught'):
        short = 'caught as built'
    else:
        short = out
        missed += 1
    rows.append('| %s | `%s` | %s | %s | %s |' % (prop, name, m['needs_to_manifest'].replace('|', '/'), m['caught_by'].replace('|', '/'), short.replace('|', '/')))
s = s[:k] + '\n'.join(rows) + s[e:]
open(p, 'w').write(s)
print(len(metas), 'seeded changes,', missed, 'missed at first')
