#!/bin/bash
# usage: process_seeded.sh <tag> <ID> [more IDs]   e.g. process_seeded.sh c01d C01 C02
# runs the seeded change of /tmp/wt-<tag> against the given quick checks and verifies its demonstration
tag=$1; shift
W=/tmp/wt-$tag
demo=$(ls $W/seeded/*_test.go $W/seeded/*_test.go.txt 2>/dev/null | head -1)
[ -z "$demo" ] && demo=$(find $W/seeded -name '*_test.go' | head -1)
base=$(basename "$demo" .txt)
pkgfile=$(find $W -name "$base" -not -path "*/seeded/*" | head -1)
pkg=$(dirname "${pkgfile#$W/}")
re=$(grep -h -o '^func Test[A-Za-z0-9_]*' "$demo" | head -1 | sed 's/func //')
echo "#### $tag: demo=$base pkg=$pkg test=$re; patch: $(git -C $W diff --stat | tail -1)"
cd /verif
./try_seeded.sh $W/seeded/patch.diff quick "$@" 2>&1 | grep -v conda | grep '^==\|^violation' | cut -c1-260 | head -6
if [ "${demo%.txt}" != "$demo" ]; then cp "$demo" /tmp/$base; demo=/tmp/$base; fi
./verify_seeded.sh $W/seeded/patch.diff "$demo" "$pkg" "$re" 2>&1 | grep -v conda | grep -a 'build+vet\|demo\|FAIL' | tr '\n' ' ' | cut -c1-400; echo
echo "STORE: ./store_seeded.py <name> $W ${1} $pkg $re ..."
