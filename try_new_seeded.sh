#!/bin/bash
# usage: try_new_seeded.sh <N> [par]  -- runs the N most recently stored seeded changes against the
# quick check of their property (scratch worktrees, see try_seeded.sh), <par> at a time
cd /verif
n=${1:-40}; par=${2:-4}
ls -td seeded/*/ | head -$n | xargs -P $par -I{} bash -c '
d={}; name=$(basename $d)
id=$(python3 -c "import json;m=json.load(open(\"$d/meta.json\"));print(m.get(\"run_against\",m[\"property\"]))")
out=$(./try_seeded.sh $d/patch.diff quick $id 2>&1 | grep -v conda)
rc=$(echo "$out" | grep -o "exit=[0-9]*" | head -1)
sig=$(echo "$out" | grep -o "^violation [A-Za-z0-9._-]*" | head -1)
echo "$id $name $rc ${sig#violation }"'
